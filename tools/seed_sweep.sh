#!/bin/bash
# tools/seed_sweep.sh <from> <to> [IDs...] — run every quick check under VERIF_SEED=from..to (evidence and replays go
# to a scratch VERIF_DIR, the committed ones are untouched); prints only alarms and a summary
FROM="$1"; TO="$2"; shift 2
IDS="${*:-C06 C07 C08 C09 C12 C13 C14 C15 C16 C17 C18 C19}"
cd /verif
D=/tmp/sweep-$$; mkdir -p $D; cp -r fixtures known-findings.txt $D/
bad=0
for s in $(seq $FROM $TO); do
  for id in $IDS; do
    out=$(VERIF_DIR=$D VERIF_SEED=$s ./target/release/hv $id quick 2>&1); code=$?
    if [ $code -ne 0 ]; then bad=$((bad+1)); echo "== seed $s $id exit=$code"; echo "$out" | grep -E "VIOLATION|invariant=|HARNESS" | cut -c1-400 | head -8; mkdir -p /tmp/sweep-replays; cp $D/replays/* /tmp/sweep-replays/ 2>/dev/null; fi
  done
done
rm -rf $D
echo "sweep seeds $FROM..$TO done: $bad alarms"
