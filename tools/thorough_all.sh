#!/bin/bash
# tools/thorough_all.sh [IDs...] — every thorough check in turn; prints alarms and one summary line per check
cd "$(dirname "$0")/.." || exit 2
IDS="${*:-C17 C16 C15 C18 C19 C11 C03 C12 C14 C13 C06 C07 C08 C09}"
for id in $IDS; do
  start=$(date +%s)
  out=$(./check $id thorough 2>&1); code=$?
  echo "== $id exit=$code $(( $(date +%s) - start ))s"
  echo "$out" | grep -E "VIOLATION|invariant=|HARNESS|thorough:" | cut -c1-500 | head -30
done
