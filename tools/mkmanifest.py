#!/usr/bin/env python3
"""Regenerates /verif/MANIFEST.json from the table below and validates it against the schema."""
import json, subprocess, sys, os

ROOT = os.path.dirname(os.path.dirname(os.path.abspath(__file__)))

PURE = {
 "C01": "pure function bytes -> Result (decoder totality/complexity): no schedule, clock, I/O fault, crash point or second party; deterministic simulation adds nothing to input generation (DESIGN.md section 5)",
 "C02": "pure function of a Message / byte string (encode-decode round trip): not a simulation target (DESIGN.md section 5)",
 "C04": "algebraic laws of pure functions over names: not a simulation target (DESIGN.md section 5)",
 "C05": "pure function (RRset, RRSIG parameters) -> bytes; needs an independent reference encoder, not a simulator (DESIGN.md section 5)",
 "C10": "the authoritative response is a pure function of (zone, query): stateless, single party, no time (DESIGN.md section 5)",
 "C20": "pure function zone text -> records: not a simulation target (DESIGN.md section 5)",
}

# id -> (level, text, note, technique, design_ref)
CLAIMED = {
 "C17": ("exploration",
   "Seeded deterministic simulation of two real TcpStream endpoints over a byte pipe whose every read size, write acceptance, Pending, latency, back-pressure and close/reset offset is drawn from the plan; oracle = the sent message list (wire bytes, yielded items, clean-vs-error end). Sampling of the schedule/chunking space, not enumeration.",
   "Trusts the simulated pipe to honour the AsyncRead/AsyncWrite contract; await-point scheduling granularity; TLS/QUIC framings not covered.",
   "deterministic simulation: seeded chunking/Pending/close fault plans on a simulated byte pipe + scheduler, reference-list oracle, delta-debugged replay", "4 (C17)"),
}

CLAIMED.update({
 "C16": ("exploration",
   "Seeded deterministic simulation of the real UdpClientStream (retry, per-transmission sockets, 3-datagram cap, 0x20) against an omniscient forger producing near-miss datagrams, and of the real TcpClientStream+DnsMultiplexer+DnsExchange with k concurrent requests against a scripted peer that reorders, duplicates, invents ids, stays silent and closes/resets; oracle: provenance markers per datagram/response, wire-id bookkeeping over the recorded history, deadlines in simulated time.",
   "Forger gets exactly one attribute wrong per datagram; id collisions between in-flight stream requests are reached only by chance; await-point scheduling granularity.",
   "deterministic simulation: simulated UDP/TCP behind RuntimeProvider, seeded forged-datagram / reorder / duplicate / close fault plans, history oracle with provenance markers", "4 (C16)"),
 "C12": ("exploration",
   "Seeded histories of TSIG-signed UPDATE messages pushed through the real Request parser -> Catalog -> SqliteZoneHandler -> InMemoryZoneHandler (+ journal) inside the simulator, compared message by message with a literal RFC 2136 reference model (accept/reject, rcode when unambiguous, full zone contents, RFC 1982 serial rule, SOA/NS/CNAME well-formedness). Fault-free half of the C14 simulation.",
   "TTLs excluded from content comparison; one request at a time (no racing UPDATEs on a multi-thread runtime); reference model shares hickory's Name/RData data types (not its update logic).",
   "deterministic simulation (fault-free configuration of the update rig): seeded UPDATE histories against an executable RFC 2136 reference model, refinement check after every message", "4 (C12)"),
 "C14": ("fault_enumeration",
   "For seeded UPDATE histories on a journal-backed zone, EVERY SQLite commit boundary of the journal (observed through commit/update/rollback hooks, initial dump included) is taken as a crash point: a journal holding exactly the committed prefix is recovered with the real recover_with_journal and must equal the server's own state after a whole number of messages (acked <= j <= started), serial included; one boundary per run continues with a post-recovery history compared with a never-crashed twin; a disk-full fault (max_page_count) is armed in 1 run of 5.",
   "SQLite commits are atomic and durable; start-up decision 'journal exists => recover' is emulated for non-empty journals (empty-journal start-up is exercised separately when built); crash points are enumerated exhaustively per history, histories are sampled.",
   "deterministic simulation with exhaustive crash-point enumeration per history: storage seam = SQLite commit boundary, recovery compared with recorded pre-crash states, disk-full injection", "4 (C14)"),
})

NOT_BUILT = {}

def main():
    props = [json.loads(l)["id"] for l in open(os.path.join(ROOT, "properties.jsonl"))]
    checks = []
    na = []
    for pid in props:
        if pid in CLAIMED:
            level, text, note, tech, ref = CLAIMED[pid]
            checks.append({
                "property_id": pid,
                "quick_cmd": f"./check {pid} quick",
                "thorough_cmd": f"./check {pid} thorough",
                "evidence_file": f"evidence/{pid}.json",
                "replay_cmd_template": f"./check {pid} --replay {{path}}",
                "engine": "hsim",
                "level_claimed": {"category": level, "text": text, "design_ref": f"DESIGN.md section {ref}"},
                "level_note": note,
                "technique": tech,
            })
        elif pid in PURE:
            na.append({"property_id": pid, "reason": PURE[pid]})
        else:
            na.append({"property_id": pid, "reason": NOT_BUILT.get(pid, "simulation target by design (DESIGN.md section 4) but the rig is not built yet; not claimed until it is")})
    m = {
        "version": 1,
        "setup_cmd": "./setup.sh",
        "hooks": {
            "guard": "cargo feature `verif-hooks` of hickory-server (non-default)",
            "enable": "the rig crate /verif/hv depends on /repo/crates/* by path and enables the feature through cargo feature unification; no hook is compiled into a default build",
            "baseline_off_cmd": "cd /repo && cargo test --workspace --no-fail-fast --offline",
            "source_commits": HOOK_COMMITS,
            "add_only": True,
        },
        "engines": [{
            "name": "hsim",
            "path": "sim/ (simulator) + hv/ (rigs)",
            "serves_properties": sorted(CLAIMED.keys()),
            "kind_free_text": "deterministic simulation with fault injection: own single-threaded executor with seeded scheduler, discrete-event clock, libc clock_gettime/getrandom interposition, simulated UDP/TCP behind hickory's RuntimeProvider, fork-per-run supervisor, plan minimiser and replay files",
        }],
        "checks": checks,
        "not_applicable": na,
        "notes": "Every check: ./check <ID> quick|thorough rebuilds /verif/hv against /repo's working tree (cargo path dependencies), runs seeded simulations on 16 workers, writes evidence/<ID>.json, prints KNOWN-FINDING / VIOLATION lines; exit 0 held, 1 violation, 2 harness error. VERIF_SEED selects the base seed (default fixed).",
    }
    path = os.path.join(ROOT, "MANIFEST.json")
    json.dump(m, open(path, "w"), indent=1)
    try:
        import jsonschema
        jsonschema.validate(m, json.load(open("/root/.vp/MANIFEST.schema.json")))
        print("MANIFEST.json valid;", len(checks), "claimed,", len(na), "not claimed")
    except ImportError:
        print("jsonschema not importable here; run with python3-vt")

HOOK_COMMITS = []

if __name__ == "__main__":
    main()
