#!/usr/bin/env python3
"""Regenerates /verif/MANIFEST.json from the table below and validates it against the schema."""
import json, subprocess, sys, os

ROOT = os.path.dirname(os.path.dirname(os.path.abspath(__file__)))

PURE = {
 "C01": "pure function bytes -> Result (decoder totality/complexity): no schedule, clock, I/O fault, crash point or second party; deterministic simulation adds nothing to input generation (DESIGN.md section 5)",
 "C02": "pure function of a Message / byte string (encode-decode round trip): not a simulation target (DESIGN.md section 5)",
 "C04": "algebraic laws of pure functions over names: not a simulation target (DESIGN.md section 5)",
 "C05": "pure function (RRset, RRSIG parameters) -> bytes; needs an independent reference encoder, not a simulator (DESIGN.md section 5)",
 "C10": "the authoritative response is a pure function of (zone, query): stateless, single party, no time (DESIGN.md section 5)",
 "C20": "pure function zone text -> records: not a simulation target (DESIGN.md section 5)",
}

# id -> (level, text, note, technique, design_ref)
CLAIMED = {
 "C17": ("exploration",
   "Seeded deterministic simulation of two real TcpStream endpoints over a byte pipe whose every read size, write acceptance, Pending, latency, back-pressure and close/reset offset is drawn from the plan; oracle = the sent message list (wire bytes, yielded items, clean-vs-error end; a clean end of an endpoint's stream - peer half-close while its own write is blocked - leaves nothing it accepted for sending half-written). Sampling of the schedule/chunking space, not enumeration.",
   "Trusts the simulated pipe to honour the AsyncRead/AsyncWrite contract; await-point scheduling granularity; TLS/QUIC framings not covered.",
   "deterministic simulation: seeded chunking/Pending/close fault plans on a simulated byte pipe + scheduler, reference-list oracle, delta-debugged replay", "4 (C17)"),
}

CLAIMED.update({
 "C16": ("exploration",
   "Seeded deterministic simulation of the real UdpClientStream (retry, per-transmission sockets, 3-datagram cap, 0x20; requests built by from_query and by the caller) against an omniscient forger producing near-miss datagrams, and of the real TcpClientStream+DnsMultiplexer+DnsExchange with k concurrent requests against a scripted peer that reorders, duplicates, invents ids, stays silent and closes/resets; oracle: provenance markers per datagram/response, wire-id bookkeeping over the recorded history, deadlines in simulated time.",
   "Forger gets exactly one attribute wrong per datagram; id collisions between in-flight stream requests are reached only by chance; await-point scheduling granularity.",
   "deterministic simulation: simulated UDP/TCP behind RuntimeProvider, seeded forged-datagram / reorder / duplicate / close fault plans, history oracle with provenance markers", "4 (C16)"),
 "C12": ("exploration",
   "Seeded histories of TSIG-signed UPDATE messages pushed through the real Request parser -> Catalog -> SqliteZoneHandler -> InMemoryZoneHandler (+ journal) inside the simulator, compared message by message with a literal RFC 2136 reference model (accept/reject, rcode when unambiguous, full zone contents, RFC 1982 serial rule, SOA/NS/CNAME well-formedness). Fault-free half of the C14 simulation.",
   "TTLs excluded from content comparison; reference model shares hickory's Name/RData data types (not its update logic). Second part `concurrent`: 2-3 UPDATEs as concurrent simulator tasks (guarded scheduling points between the steps of update() let the seeded scheduler interleave them); oracle = serializability against the same code run sequentially in every order.",
   "deterministic simulation (fault-free configuration of the update rig): seeded UPDATE histories against an executable RFC 2136 reference model, refinement check after every message", "4 (C12)"),
 "C14": ("fault_enumeration",
   "For seeded UPDATE histories on a journal-backed zone, EVERY SQLite commit boundary of the journal (observed through commit/update/rollback hooks, initial dump included) is taken as a crash point: a journal holding exactly the committed prefix is recovered with the real recover_with_journal and must equal the server's own state after a whole number of messages (acked <= j <= started), serial included; one boundary per run continues with a post-recovery history compared with a never-crashed twin; a disk-full fault (max_page_count) is armed in 1 run of 5.",
   "SQLite commits are atomic and durable; start-up decision 'journal exists => recover' is emulated for non-empty journals (empty-journal start-up is exercised separately when built); crash points are enumerated exhaustively per history, histories are sampled.",
   "deterministic simulation with exhaustive crash-point enumeration per history: storage seam = SQLite commit boundary, recovery compared with recorded pre-crash states, disk-full injection", "4 (C14)"),
})

CLAIMED.update({
 "C06": ("exploration",
   "Seeded histories of signed-zone lookups through the real DnssecDnsHandle (validator + its validation cache) with the simulated wall clock jumped forwards/backwards between lookups, RRSIG windows placed around the clock (RFC 1982 wrap included), and in-flight edits of the signed RRset, its RRSIG fields, class and TTL (records of another class added to the RRset included); oracle per lookup: Secure only if an untampered RRSIG of the genuine RRset is inside its window at the simulated now; completeness while nothing was corrupted.",
   "Clock is the interposed libc clock (all of hickory's time reads go through it); one validator per run; Ed25519/ECDSA/RSA fixture keys; await-point scheduling granularity.",
   "deterministic simulation: interposed wall clock with jumps/skew, signed zones served by the real authoritative code, seeded tamper plans, per-lookup truth oracle", "4 (C06)"),
 "C07": ("exploration",
   "Seeded three-level signed hierarchies (root -> tld -> leaf, plus insecure, island, unsupported-algorithm and unsigned variants) served by the real authoritative code; the real validator resolves existing and non-existent names while a seeded adversary forges / strips / substitutes DS, DNSKEY, NS and answer records at a chosen upstream exchange, or injects data signed by the key of a validly chained sibling zone; oracle: Secure only for data whose chain to the configured anchor is genuine, Insecure only where a genuine DS-absence proof exists, genuine data never downgraded or rejected without a fault. Second part `server`: the same worlds and faults reached as a client reaches them - request bytes -> real Catalog -> real ForwardZoneHandler -> Resolver (cache, alias chasing) -> DnssecDnsHandle -> NameServerPool -> UDP/TCP client streams over the simulated network -> upstream node; client flags DO/AD/CD per question, optional second round from the cache; oracle on the client's view: AD only on genuine RRsets of securely chained zones and never on NXDOMAIN for an existing name, with CD=0 no forged record or false NXDOMAIN of a signed zone is served, AD only when asked for.",
   "Adversary is on-path but cannot sign; zones are small; one fault site per run (plus compounds); opt-out downgrade of non-existent names is allowed as RFC 5155 permits; in part `server` the upstream node (plays the recursive resolver) and the client are stubs, a missing AD bit is a probe only.",
   "deterministic simulation: upstream router seam (DnsHandle) / simulated UDP+TCP upstream with seeded per-exchange tamper faults, real server + real validator (+ real forwarder, resolver cache and pool in part `server`), chain-of-trust truth oracle", "4 (C07)"),
 "C08": ("exploration",
   "Seeded NSEC-signed zones over a small label universe (wildcards, empty non-terminals, CNAME owners, insecure delegation) served by the real authoritative code; the victim response is rewritten using only genuine signed material of the same zone (rcode flips, denial subsets, replayed expansions, predecessor proofs, a wildcard's NSEC relabelled to the query name, a forged unsigned apex NSEC); oracle: independent RFC 1034/4592 zone-truth evaluator - a Secure verdict must match the truth (soundness), the server's untouched proof must be accepted (completeness); second oracle: an independent RFC 4035 5.4 / RFC 6840 4 reference decides whether the usable (genuine, genuinely signed, original-owner) NSEC records of the delivered response entail its claim in every zone consistent with them - Secure without entailment is a violation even when the claim happens to be true.",
   "Label universe {a,b,*} depth <= 3; one zone; the attacker cannot sign; known defects are keyed by (claim, truth class) shape.",
   "deterministic simulation: response-rewrite fault plans from harvested genuine records, real server + real validator, zone-truth oracle + independent entailment reference", "4 (C08)"),
 "C09": ("exploration",
   "Same rig as C08 on NSEC3-signed zones (salt 0-2 bytes, iterations {0..600} against the validator's soft/hard limits, opt-out, second-chain records, NSEC3-typed RRsets signed by a delegated child zone); additionally: Secure never above the soft iteration limit, Bogus above the hard limit; entailment oracle per RFC 5155 8.3-8.8 (closest-encloser proof, covered next closer, covered/matched wildcard, same parameters, opt-out only for DS); acceptances that rest on the recorded wrap-around defect are attributed only when the proof is complete under a model of that defect and the validator rejects the response without the last-of-chain record.",
   "As C08; hash-order coincidences are sampled, not enumerated.",
   "deterministic simulation: response-rewrite fault plans from harvested genuine NSEC3 records, real server + real validator, zone-truth oracle + independent entailment reference", "4 (C09)"),
 "C13": ("exploration",
   "Seeded TSIG-signed request sequences (server side: real Request parser -> Catalog TSIG verification; client side: real UdpClientStream / DnsMultiplexer with a signer and reply verification) with the simulated clock skewed/jumped and messages tampered at byte level (MAC truncation, time, fudge, key name, algorithm, trailing bytes, id/header rewrite, replayed replies); third part: the transfer policy across restarts through the real try_from_config on the same journal; oracle: an independent RFC 8945 verifier built on ring HMAC decides accept/reject and the error code for each message.",
   "HMAC-SHA256/384/512 only; multi-message (AXFR) TSIG chains not covered; reference verifier shares hickory's Name type only.",
   "deterministic simulation: interposed clock with skew, byte-level tamper plans on signed messages, independent RFC 8945 reference verifier", "4 (C13)"),
 "C15": ("exploration",
   "Seeded histories of insert/get/clear operations on the real resolver ResponseCache under a simulated clock that jumps between operations, with per-type TTL bounds drawn per run; oracle: reference cache model - an entry is never served after its clamped TTL has elapsed, the TTL handed out equals remaining lifetime, positive/negative bounds are applied per record type.",
   "Single-task histories (the cache is synchronous); eviction by capacity is treated as an allowed miss.",
   "deterministic simulation: interposed monotonic clock with jumps, seeded operation histories against an executable reference cache", "4 (C15)"),
 "C18": ("exploration",
   "Seeded pools of 1-4 simulated name servers (UDP and TCP behind the RuntimeProvider seam) with per-server behaviour plans (silence, SERVFAIL/REFUSED, truncation, slow answers, connection refusal/reset, servers that close idle connections, a caller that gives up, bursts beyond the per-connection request limit, a spaced second round) driving the real NameServerPool / NameServer / connection code with concurrent identical and distinct lookups; oracles: a healthy reachable server means an answer within the deadline, every lookup ends by timeout*attempts in simulated time, answers carry the marker of the server that produced them, no query after the deadline.",
   "Plain UDP/TCP only (no TLS/QUIC/H2); server statistics ordering is observed, not asserted.",
   "deterministic simulation: simulated network with seeded loss/delay/refusal/truncation faults, discrete-event clock for deadlines, marker-based history oracle", "4 (C18)"),
})

CLAIMED.update({
 "C19": ("exploration",
   "Seeded small internets (root + up to 3 levels, 1-2 NS per zone on 2-6 scripted authoritative servers, NS host names in / above / beside the zone, glue present / absent / dead, lame, silent and UDP-truncating servers, record TTLs 0-300 with pauses between questions, 0x20, CNAME chains and loops across zones) resolved by the real Recursor down to the simulated sockets; hostile servers append records whose owner lies outside every zone they were ever delegated (each injection has its own marker address and its own trigger class); oracles over the recorded history: no injected record is returned, contacted as a name server or resurfaces after all servers turned honest; denied server / answer addresses never contacted / returned; every resolution ends within the step budget and a query cap; plain worlds resolve to the truth.",
   "Authoritative servers are a scripted stub (RFC 1034 4.3.2 subset); a hostile server lies only outside its bailiwick; non-validating recursor only. Second part `alias`: the real stub Resolver (CachingClient alias chasing) against an upstream serving alias chains of 0-13 hops, loops, 1-3 hops per response, concurrent identical lookups and cache sizes: bounded upstream queries, termination, right answer for short chains.",
   "deterministic simulation: generated internet on the simulated network, seeded hostile-record injection / lame / silent / dead-glue faults, marker-based history oracle, discrete-event clock for timeouts", "4 (C19)"),
 "C11": ("exploration",
   "Seeded catalogs (nested, sibling, look-alike and root zones with zone markers, optional Skip handler in front; query names include asterisk-first names) and allow/deny sets behind the real Server front gate (guarded hook = the call the socket loops make); 3-14 concurrent requests per run built by the rig's own encoder: valid queries over every opcode / QR / EDNS version / class / type, truncations, single-byte mutations, wrong question counts, random bytes, over UDP and TCP; oracle: 0 responses for short or QR=1 messages, else exactly 1 with the id and QR, NOTIMP / REFUSED / BADVERS / question echo / marker of the longest enclosing zone for constructed-valid requests (reference access-control and longest-suffix models), and a final probe that must still be served.",
   "The tokio UDP/TCP socket loops themselves (sanitize_src_address, per-connection timeout, task spawning) are replaced by simulator tasks; second part `tcp-connection`: 1-8 requests pipelined on one simulated TCP connection (seeded chunking / Pending / cut / half-close) through the real server-side TcpStream framing and outbound queue, responses in request order, one per eligible request unless the client resets; for corrupted requests only count/id/QR (and NOTIMP for unknown opcodes) are asserted.",
   "deterministic simulation: concurrent request tasks under the seeded scheduler through the guarded server hook, hostile-input fault classes, reference model of the gate", "4 (C11)"),
 "C03": ("exploration",
   "End-to-end form only: zones with RRsets large enough to meet every limit (0-300 TXT of 1-249 bytes, 0-4200 A, 0-13 NS with padded targets, 0-12 MX, 0-9 HTTPS+SVCB records with alpn / ipv4hint / ipv6hint lists of 0-250 addresses, 0-30 CAA+NAPTR+SRV) queried with no EDNS or advertised sizes {0..65535}, DO on/off, each query over UDP and as a twin over TCP through the real Server front gate and MessageResponse::encode; invariants per response: UDP length <= max(512, advertised), TCP <= 65535, the bytes walk exactly to their end by the header counts (own wire walker), decode, every UDP section is a prefix of the twin's, TC set iff something (OPT included) was dropped.",
   "The encoder-level clause (arbitrary messages x arbitrary limits) is a pure function and is not claimed beyond the responses these runs produce; a seeded encoder change that needs a later record to reuse a name introduced by a dropped record is not reachable through the in-memory zone handler's responses (see DESIGN.md).",
   "deterministic simulation: UDP/TCP twin requests through the guarded server hook, size-limit boundary plans, structural wire oracle", "4 (C03)"),
})

NOT_BUILT = {}

def main():
    props = [json.loads(l)["id"] for l in open(os.path.join(ROOT, "properties.jsonl"))]
    checks = []
    na = []
    for pid in props:
        if pid in CLAIMED:
            level, text, note, tech, ref = CLAIMED[pid]
            checks.append({
                "property_id": pid,
                "quick_cmd": f"./check {pid} quick",
                "thorough_cmd": f"./check {pid} thorough",
                "evidence_file": f"evidence/{pid}.json",
                "replay_cmd_template": f"./check {pid} --replay {{path}}",
                "engine": "hsim",
                "level_claimed": {"category": level, "text": text, "design_ref": f"DESIGN.md section {ref}"},
                "level_note": note,
                "technique": tech,
            })
        elif pid in PURE:
            na.append({"property_id": pid, "reason": PURE[pid]})
        else:
            na.append({"property_id": pid, "reason": NOT_BUILT.get(pid, "simulation target by design (DESIGN.md section 4) but the rig is not built yet; not claimed until it is")})
    m = {
        "version": 1,
        "setup_cmd": "./setup.sh",
        "hooks": {
            "guard": "cargo feature `verif-hooks` of hickory-server (non-default)",
            "enable": "the rig crate /verif/hv depends on /repo/crates/* by path and enables the feature through cargo feature unification; no hook is compiled into a default build",
            "baseline_off_cmd": "cd /repo && cargo test --workspace --no-fail-fast --offline",
            "source_commits": HOOK_COMMITS,
            "add_only": True,
        },
        "engines": [{
            "name": "hsim",
            "path": "sim/ (simulator) + hv/ (rigs)",
            "serves_properties": sorted(CLAIMED.keys()),
            "kind_free_text": "deterministic simulation with fault injection: own single-threaded executor with seeded scheduler, discrete-event clock, libc clock_gettime/getrandom interposition, simulated UDP/TCP behind hickory's RuntimeProvider, fork-per-run supervisor, plan minimiser and replay files",
        }],
        "checks": checks,
        "not_applicable": na,
        "notes": "Every check: ./check <ID> quick|thorough rebuilds /verif/hv against /repo's working tree (cargo path dependencies), runs seeded simulations on 16 workers, writes evidence/<ID>.json, prints KNOWN-FINDING / VIOLATION lines; exit 0 held, 1 violation, 2 harness error. VERIF_SEED selects the base seed (default fixed).",
    }
    path = os.path.join(ROOT, "MANIFEST.json")
    json.dump(m, open(path, "w"), indent=1)
    try:
        import jsonschema
        jsonschema.validate(m, json.load(open("/root/.vp/MANIFEST.schema.json")))
        print("MANIFEST.json valid;", len(checks), "claimed,", len(na), "not claimed")
    except ImportError:
        print("jsonschema not importable here; run with python3-vt")

HOOK_COMMITS = ["8ec5480", "81c66fa"]

if __name__ == "__main__":
    main()
