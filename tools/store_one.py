#!/usr/bin/env python3
"""tools/store_one.py <ID> <n> <result> <command> <note> — store /tmp/seeded-out/<ID>/<n> as /verif/seeded/<ID>-<n>
(patch.diff, demo.diff, meta.json with the sub-agent's description, detection result), then rebuild seeded/README.md.
tools/store_one.py --confirm <logfile> merges confirmation lines of tools/confirm_seeded.sh into the meta files.
tools/store_one.py --readme only rebuilds the README."""
import json, os, shutil, sys
DST = "/verif/seeded"

def readme():
    rows = []
    for d in sorted(os.listdir(DST)):
        mp = os.path.join(DST, d, "meta.json")
        if not os.path.exists(mp):
            continue
        m = json.load(open(mp))
        rows.append((d.replace("-", "/", 1), m.get("independent_confirmation", {}).get("confirmed"), m.get("detection", {}).get("result"), m.get("detection", {}).get("note", "")))
    with open(os.path.join(DST, "README.md"), "w") as f:
        f.write("# Seeded changes\n\nEach directory: `patch.diff` (the change, applies to /repo with `git apply`), `demo.diff` (a test that fails with the change and passes without), `meta.json`.\nNone of these is ever committed to /repo.\n\n| change | independently confirmed | quick check | note |\n|---|---|---|---|\n")
        for k, c, d, n in rows:
            f.write(f"| {k} | {c} | {d} | {n} |\n")
    print(len(rows), "rows")

if sys.argv[1] == "--readme":
    readme(); sys.exit(0)
if sys.argv[1] == "--confirm":
    for line in open(sys.argv[2]):
        line = line.strip()
        if not line.startswith("{"):
            continue
        c = json.loads(line)
        d = c["dir"]
        mp = os.path.join(d, "meta.json")
        if not os.path.exists(mp) or "suite" not in c:
            continue
        m = json.load(open(mp))
        m["independent_confirmation"] = {"tool": "tools/confirm_seeded.sh (scratch worktree of /repo HEAD)", "compiles": c["suite"].get("compiled"),
            "existing_suite_unexpected_failures": c["suite"].get("unexpected_failures"), "demo_exit_without_change": c.get("demo_without_exit"),
            "demo_exit_with_change": c.get("demo_with_exit"),
            "confirmed": bool(c["suite"].get("compiled") and not c["suite"].get("unexpected_failures") and c.get("demo_without_exit") == 0 and c.get("demo_with_exit") not in (0, None))}
        json.dump(m, open(mp, "w"), indent=1)
        print(d, m["independent_confirmation"]["confirmed"])
    readme(); sys.exit(0)
pid, n, result, command, note = sys.argv[1:6]
src = f"/tmp/seeded-out/{pid}/{n}"
out = os.path.join(DST, f"{pid}-{n}")
os.makedirs(out, exist_ok=True)
for f in ("patch.diff", "demo.diff"):
    shutil.copy(os.path.join(src, f), os.path.join(out, f))
a = json.load(open(os.path.join(src, "meta.json")))
m = {"breaks_property": pid, "what_it_does": a.get("what_it_does", ""), "needs": a.get("needs", ""), "demonstration": a.get("demonstration", a.get("demo_cmd", "")),
     "agent_ran": a.get("agent_ran", []), "note": "",
     "independent_confirmation": {"confirmed": None, "note": "confirmation run not finished when this file was written"},
     "detection": {"result": result, "command": command, "note": note, "how": "tools/try_seeded.sh: git -C /repo apply patch.diff; check; git -C /repo checkout -- ."}}
old = os.path.join(out, "meta.json")
if os.path.exists(old):
    try:
        prev = json.load(open(old))
        m["independent_confirmation"] = prev.get("independent_confirmation", m["independent_confirmation"])
        if prev.get("demonstration") and not prev["demonstration"].startswith("cd "):
            m["demonstration"] = prev["demonstration"]
    except Exception:
        pass
json.dump(m, open(old, "w"), indent=1)
readme()
