#!/bin/bash
# tools/try_seeded.sh <ID> <patch.diff> [quick|thorough] — apply a seeded change to /repo, run the check, undo it
ID="$1"; P="$2"; T="${3:-quick}"
cd /repo || exit 2
if ! git diff --quiet; then echo "repo working tree not clean"; exit 2; fi
git apply "$P" || { echo "patch does not apply"; exit 2; }
cd /verif
mkdir -p /tmp/try-seeded && rm -rf /tmp/try-seeded/replays && cp -r /verif/fixtures /verif/known-findings.txt /tmp/try-seeded/
OUT=$(VERIF_DIR=/tmp/try-seeded ./check "$ID" "$T" 2>&1); CODE=$?
git -C /repo checkout -- . 
(cd /verif && cargo build --release --offline -p hv >/dev/null 2>&1)
echo "$OUT" | grep -E "VIOLATION|invariant=|HARNESS|quick:|thorough:" | head -12
echo "exit=$CODE"
