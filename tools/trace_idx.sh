#!/bin/bash
# tools/trace_idx.sh <ID> <part> <idx> [grep-pattern] — regenerate the plan of run <idx> and replay it with a trace
ID="$1"; PART="$2"; IDX="$3"; PAT="${4:-.}"
cd /verif
./target/release/hv "$ID" --seed-plan "$IDX" "$PART" 2>/dev/null > /tmp/trace-plan.json
python3 - "$ID" "$PART" <<'PY'
import json,sys
r={'property':sys.argv[1],'part':sys.argv[2],'seed':0,'tier':'quick','invariant':'x','shape':'','detail':'','log_hash':0,'minimised':False,'shrink_steps':0,'plan':json.load(open('/tmp/trace-plan.json'))}
json.dump(r,open('/tmp/trace-replay.json','w'))
PY
VERIF_DIR="${VERIF_DIR:-/verif}" ./target/release/hv "$ID" --replay /tmp/trace-replay.json --trace 2>&1 | grep -E "$PAT"
