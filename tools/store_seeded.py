#!/usr/bin/env python3
"""Copies the seeded changes delivered under /tmp/seeded-out into /verif/seeded/<ID>-<n>/ and writes meta.json with
the sub-agent's description, the independent confirmation (from /tmp/confirm.log) and the detection result."""
import json, os, shutil, re, sys

SRC = "/tmp/seeded-out"
DST = "/verif/seeded"
DETECT = {
 "C17/1": ("caught", "./check C17 quick", "C17.* framing violations"),
 "C17/2": ("caught", "./check C17 quick", "C17.* framing violations"),
 "C16/1": ("caught", "./check C16 quick", ""),
 "C16/2": ("caught", "./check C16 quick", ""),
 "C12/1": ("caught", "./check C12 quick", ""),
 "C12/2": ("caught", "./check C12 quick", ""),
 "C14/1a": ("caught", "./check C14 quick (startup part)", "C14/1 rebased onto the tree after fix 0bfee28"),
 "C14/2": ("neutralised", "./check C12 quick (C12.atomic)", "the transaction fix 0bfee28 makes the change ineffective for C14: its demonstration no longer fails; the same edit is caught as C12.atomic"),
 "C13/1": ("caught", "./check C13 quick", ""),
 "C13/2": ("caught", "./check C13 quick (client part)", "needed the client part"),
 "C06/1": ("caught", "./check C06 quick", "needed the class-change edit"),
 "C06/2": ("caught", "./check C06 quick", ""),
 "C07/1": ("caught", "./check C07 quick", "needed the key-substitution compound fault"),
 "C07/2": ("caught", "./check C07 quick", "needed mixed DS digests and answer reordering"),
 "C08/1": ("caught", "./check C08 quick", ""),
 "C08/2": ("caught", "./check C08 quick", "needed CNAME owners in the zone universe"),
 "C09/1": ("caught", "./check C09 quick", "needed the predecessor-proof rewrite and attribution by re-validation"),
 "C09/2": ("caught", "./check C09 quick", ""),
 "C19/1": ("caught", "./check C19 quick", "C19.poison-returned / C19.poison-contacted"),
 "C19/2": ("caught", "./check C19 quick", "C19.crash (stack overflow of the run's child)"),
 "C11/1": ("caught", "./check C11 quick", "C11.reply-to-non-request/qr-set"),
 "C11/2": ("caught", "./check C11 quick", "C11.rcode/want-Refused:*"),
 "C03/1": ("caught", "./check C03 quick", "C03.udp-over-limit"),
 "C03/2a": ("missed", "./check C03 quick", "C03/2 rebased onto the tree after fix 3d5b2ed; not reachable through the server path (DESIGN.md 10.4)"),
}
DETECT.update(json.load(open("/verif/seeded/detect-extra.json")) if os.path.exists("/verif/seeded/detect-extra.json") else {})

confirm = {}
if os.path.exists("/tmp/confirm.log"):
    for line in open("/tmp/confirm.log"):
        line = line.strip()
        if line.startswith("{"):
            try:
                j = json.loads(line)
                confirm[j["dir"].replace(SRC + "/", "")] = j
            except Exception:
                pass
# earlier confirmations recorded by hand (log lines lost): none
os.makedirs(DST, exist_ok=True)
rows = []
for pid in sorted(os.listdir(SRC)):
    for n in sorted(os.listdir(os.path.join(SRC, pid))):
        d = os.path.join(SRC, pid, n)
        if not os.path.isdir(d) or not os.path.exists(os.path.join(d, "patch.diff")):
            continue
        key = f"{pid}/{n}"
        if key in ("C14/1", "C03/2"):   # superseded by the rebased variants 1a / 2a
            continue
        out = os.path.join(DST, f"{pid}-{n}")
        os.makedirs(out, exist_ok=True)
        shutil.copy(os.path.join(d, "patch.diff"), os.path.join(out, "patch.diff"))
        if os.path.exists(os.path.join(d, "demo.diff")):
            shutil.copy(os.path.join(d, "demo.diff"), os.path.join(out, "demo.diff"))
        meta = {}
        mp = os.path.join(d, "meta.json")
        if os.path.exists(mp):
            try:
                meta = json.load(open(mp))
            except Exception as e:
                meta = {"agent_meta_unreadable": str(e)}
        src_meta = meta
        det = DETECT.get(key)
        c = confirm.get(key)
        m = {
            "breaks_property": pid,
            "what_it_does": src_meta.get("summary", ""),
            "needs": src_meta.get("needs", ""),
            "demonstration": src_meta.get("demo_cmd", ""),
            "agent_ran": src_meta.get("ran", []),
            "note": src_meta.get("note", ""),
            "independent_confirmation": (
                {"tool": "tools/confirm_seeded.sh (scratch worktree of /repo HEAD)", "compiles": c["suite"].get("compiled") if "suite" in c else None,
                 "existing_suite_unexpected_failures": c["suite"].get("unexpected_failures") if "suite" in c else None,
                 "demo_exit_without_change": c.get("demo_without_exit"), "demo_exit_with_change": c.get("demo_with_exit"),
                 "confirmed": ("suite" in c and c["suite"].get("compiled") and not c["suite"].get("unexpected_failures") and c.get("demo_without_exit") == 0 and c.get("demo_with_exit") not in (0, None))}
                if c else {"confirmed": None, "note": "confirmation run not finished when this file was written"}),
            "detection": ({"result": det[0], "command": det[1], "note": det[2], "how": "tools/try_seeded.sh: git -C /repo apply patch.diff; check; git -C /repo checkout -- ."} if det else {"result": "not run yet"}),
        }
        json.dump(m, open(os.path.join(out, "meta.json"), "w"), indent=1)
        rows.append((key, m["independent_confirmation"].get("confirmed"), m["detection"]["result"]))
with open(os.path.join(DST, "README.md"), "w") as f:
    f.write("# Seeded changes\n\nEach directory: `patch.diff` (the change, applies to /repo with `git apply`), `demo.diff` (a test that fails with the change and passes without), `meta.json`.\nNone of these is ever committed to /repo.\n\n| change | independently confirmed | quick check |\n|---|---|---|\n")
    for k, c, d in rows:
        f.write(f"| {k} | {c} | {d} |\n")
print(len(rows), "stored")
