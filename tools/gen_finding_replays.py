#!/usr/bin/env python3
"""tools/gen_finding_replays.py <ID> [seed] — for every listed finding of <ID> without a replay under findings/<ID>/,
run the quick check with that property's findings unlisted (scratch VERIF_DIR) and keep one minimised replay per key."""
import sys, os, re, json, glob, shutil, subprocess
pid = sys.argv[1]; seed = sys.argv[2] if len(sys.argv) > 2 else None
D = f"/tmp/genfind-{pid}"
shutil.rmtree(D, ignore_errors=True); os.makedirs(D)
shutil.copytree("/verif/fixtures", D + "/fixtures")
keys = []
with open(D + "/known-findings.txt", "w") as out:
    for l in open("/verif/known-findings.txt"):
        m = re.match(r"finding: property=(\S+) key=(\S+) ::", l)
        if m and m.group(1) == pid:
            keys.append(m.group(2)); continue
        out.write(l)
have = set()
for f in glob.glob(f"/verif/findings/{pid}/*.json"):
    try:
        r = json.load(open(f)); have.add(r["invariant"] + "/" + r["shape"])
    except Exception: pass
missing = [k for k in keys if k not in have]
print("missing:", missing)
if not missing: sys.exit(0)
env = dict(os.environ, VERIF_DIR=D)
if seed: env["VERIF_SEED"] = seed
subprocess.run(["/verif/target/release/hv", pid, "quick"], env=env, stdout=subprocess.DEVNULL, stderr=subprocess.DEVNULL)
os.makedirs(f"/verif/findings/{pid}", exist_ok=True)
for f in sorted(glob.glob(D + "/replays/*.json")):
    r = json.load(open(f)); k = r["invariant"] + "/" + r["shape"]
    if k in missing:
        name = (r["invariant"] + "__" + r["shape"]).replace(":", "_").replace("/", "_")
        json.dump(r, open(f"/verif/findings/{pid}/{name}.json", "w"), indent=1)
        missing.remove(k); print("stored", k)
print("still missing:", missing)
shutil.rmtree(D, ignore_errors=True)
