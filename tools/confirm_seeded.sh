#!/bin/bash
# tools/confirm_seeded.sh <dir with patch.diff demo.diff meta.json> — independent confirmation of a seeded change
# in a scratch worktree: (a) compiles, (b) existing tests: same failures as the known offline baseline,
# (c) demonstration passes without the change and fails with it.  Prints a JSON summary line.
D="$1"; NAME=$(echo "$D" | tr '/' '_')
WT=/tmp/cw$NAME
export CARGO_NET_OFFLINE=true
git -C /repo worktree remove --force "$WT" >/dev/null 2>&1; rm -rf "$WT"
git -C /repo worktree add --detach "$WT" HEAD >/dev/null 2>&1 || { echo "{\"dir\":\"$D\",\"error\":\"worktree\"}"; exit 1; }
cd "$WT" || exit 1
export CARGO_TARGET_DIR="$WT/target"
DEMO_CMD=$(python3 -c "import json;m=json.load(open('$D/meta.json'));print(m.get('demo_cmd') or m.get('demonstration'))")
git apply "$D/demo.diff" || { echo "{\"dir\":\"$D\",\"error\":\"demo.diff does not apply\"}"; }
( eval "$DEMO_CMD" ) > "$WT/demo_without.log" 2>&1; W=$?
git apply "$D/patch.diff" || { echo "{\"dir\":\"$D\",\"error\":\"patch.diff does not apply\"}"; }
( eval "$DEMO_CMD" ) > "$WT/demo_with.log" 2>&1; X=$?
# existing tests with the change (demo file removed again so that it does not count)
git apply -R "$D/demo.diff"
cargo test --workspace --no-fail-fast --offline -j 6 > "$WT/suite.log" 2>&1
NEWFAIL=$(python3 - "$WT/suite.log" <<'PY'
import re,json,sys
log=open(sys.argv[1]).read()
failed=set(re.findall(r'^test (\S+) \.\.\. FAILED',log,re.M))
b=json.load(open('/root/.vp/BASELINE.json'))
always=set(x.split('::',1)[1] for x in b['always_fail'])
bad=[f for f in failed if not any(a==f or a.endswith('::'+f) for a in always)]
compiled = 'error: could not compile' not in log
print(json.dumps({"compiled":compiled,"unexpected_failures":bad,"failed_total":len(failed)}))
PY
)
echo "{\"dir\":\"$D\",\"demo_without_exit\":$W,\"demo_with_exit\":$X,\"suite\":$NEWFAIL}"
cd /; git -C /repo worktree remove --force "$WT" >/dev/null 2>&1; rm -rf "$WT"
