#!/bin/bash
# tools/baseline_compare.sh — run the repository's suite (guard off) and compare with BASELINE.json's stable_pass list
cd /repo || exit 2
LOG=/tmp/baseline-run.log
cargo test --workspace --no-fail-fast --offline > $LOG 2>&1
python3 - <<'PY'
import json,re
base=json.load(open('/root/.vp/BASELINE.json'))
stable=set(base['stable_pass'])
ok=set(); failed=set()
cur=None
for line in open('/tmp/baseline-run.log', errors='replace'):
    m=re.match(r'\s*Running (?:unittests )?(\S+) \(target/debug/deps/([A-Za-z0-9_]+)-[0-9a-f]+\)', line)
    if m:
        cur=(m.group(1), m.group(2)); continue
    m=re.match(r'\s*Doc-tests (\S+)', line)
    if m:
        cur=('doc', m.group(1)); continue
    m=re.match(r'test (\S+)(?: - should panic)? \.\.\. (ok|FAILED|ignored)', line)
    if m and cur:
        (ok if m.group(2)=='ok' else failed if m.group(2)=='FAILED' else set()).add((cur, m.group(1)))
def matches(name, entry):
    (src, binname), test = entry
    return name.endswith('::'+test) or name.endswith(test)
missing=[]
okt={t for (_,t) in ok}
for s in sorted(stable):
    # stable names are package::[binary::]path
    parts=s.split('::')
    cands=['::'.join(parts[i:]) for i in range(1,len(parts))]
    if not any(c in okt for c in cands):
        missing.append(s)
print(f"stable_pass {len(stable)}; passing tests seen {len(ok)}; failed seen {len(failed)}")
print("stable tests not seen passing:", len(missing))
for m in missing[:40]: print("  ", m)
PY
