//! C08 / C09 — NSEC and NSEC3 denial of existence: sound and complete.
//!
//! Two real parties: the authoritative side (a generated zone over the small name universe
//! {a, b, *}^(<=3) under `example.`, signed with NSEC or NSEC3 by `secure_zone_mut`, answered by
//! `Catalog::handle_request`) and the real validator.  Between them an attacker that has
//! harvested every genuine signed RRset of the zone and rewrites the victim response using only
//! that material plus unsigned header fields.  Oracle: an independent RFC 1034 4.3.2 / RFC 4592
//! evaluator of the zone gives the truth of what the (rewritten) response claims.

use std::collections::{BTreeMap, BTreeSet};
use std::sync::Arc;

use futures_util::stream::StreamExt;
use hickory_net::dnssec::DnssecDnsHandle;
use hickory_net::xfer::DnsHandle;
use hickory_net::{DnsError, NetError};
use hickory_proto::dnssec::rdata::DNSSECRData;
use hickory_proto::dnssec::Proof;
use hickory_proto::op::{DnsRequestOptions, Message, Query, ResponseCode};
use hickory_proto::rr::rdata::{A, NS, SOA, TXT};
use hickory_proto::rr::{Name, RData, Record, RecordType};
use hsim::exec::{self, SimConfig};
use hsim::rng::mix;
use hsim::supervisor::{CheckDef, Describe, Part, Report, Tier};
use hsim::Rng;
use serde::{Deserialize, Serialize};
use serde_json::Value;

use super::denial_ref::{nsec3_entails, nsec_entails, ClaimKind, Nsec3Fact, NsecFact};
use super::dnssec::{anchors_for, build_zone, KeyRef, Nx, Router, World, ZoneRt, ZoneSpec};
use super::update::finish;

const LABELS: [&str; 3] = ["a", "b", "*"];

fn n(s: &str) -> Name {
    Name::from_ascii(s).unwrap()
}

/// a name of the universe: labels listed leftmost first, relative to `example.`
fn uname(labels: &[u8]) -> Name {
    let mut s = String::new();
    for l in labels {
        s.push_str(LABELS[*l as usize % 3]);
        s.push('.');
    }
    s.push_str("example.");
    n(&s)
}

#[derive(Serialize, Deserialize, Clone, Debug, PartialEq)]
struct Owner {
    labels: Vec<u8>,
    /// bit 0: A, bit 1: TXT; 4 = a CNAME (to ns.example.) and nothing else
    types: u8,
}

#[derive(Serialize, Deserialize, Clone, Copy, Debug, PartialEq, Eq, PartialOrd, Ord)]
enum Rewrite {
    FlipRcode,
    /// drop the denial RRsets selected by the bit mask (index = order of appearance)
    DropDenial(u8),
    /// add the k-th harvested denial RRset of the zone
    AddDenial(u8),
    /// replace all denial RRsets by the harvested ones selected by the mask
    ReplaceDenial(u16),
    /// remove the answer section (turning a positive answer into a NODATA claim)
    StripAnswer,
    DropSoa,
    /// present the genuine wildcard-expanded answer of `donor` (index into queries) for the
    /// victim name: owner names rewritten, signatures untouched
    ReplayWildcard(u8),
    /// add a denial RRset of the zone's second NSEC3 chain (same zone, other salt) — C09 only
    AddAltChain(u8),
    /// the best NXDOMAIN an attacker who knows the chain can forge: empty answer, rcode
    /// NXDOMAIN, and for every name whose absence would have to be shown (the query name, its
    /// ancestors' next-closer names and wildcards) the genuine record that comes closest to
    /// covering it — its strict predecessor in the chain — plus the records matching the ancestors
    PredecessorProof,
    /// NODATA claim built from the genuine NSEC (and RRSIG) of the k-th wildcard owner of the
    /// zone with only the owner name rewritten to the query name: the RRSIG Labels field is then
    /// smaller than the owner's label count, so the signature still verifies "as an expansion",
    /// but RFC 4035 5.4 forbids reading such an NSEC as a statement about its owner
    RelabelWildcardDenial(u8),
    /// C09: a denial for the query name (0 NXDOMAIN, 1 NODATA) built from the parent's genuine
    /// SOA and NSEC3-typed RRsets that a *signed child zone* (z.example., delegated with a DS)
    /// holds at `<hash>.z.example.` and signs with its own key: validly signed records that do
    /// not belong to the zone the response speaks for
    ChildZoneProof(u8),
    /// C08: NXDOMAIN (0) / NODATA (1) claim resting on a *forged, unsigned* NSEC record owned by
    /// the apex (next name = apex, so it spans the whole zone) next to the genuine signed SOA
    ForgedApexNsec(u8),
}

#[derive(Serialize, Deserialize, Clone, Debug)]
struct Plan {
    sim: SimConfig,
    nsec3: bool,
    salt_len: u8,
    iterations: u16,
    opt_out: bool,
    soft_limit: u16,
    hard_limit: u16,
    owners: Vec<Owner>,
    /// an insecure delegation (NS, no DS) at this name, if any
    delegation: Option<Vec<u8>>,
    /// victim question: name labels + type (0 A, 1 TXT, 2 AAAA, 3 NS, 4 DS)
    qname: Vec<u8>,
    qtype: u8,
    rewrites: Vec<Rewrite>,
}

fn qtype_of(t: u8) -> RecordType {
    match t % 5 {
        0 => RecordType::A,
        1 => RecordType::TXT,
        2 => RecordType::AAAA,
        3 => RecordType::NS,
        _ => RecordType::DS,
    }
}

// ------------------------------------------------------------------------------------------
// independent evaluator of the zone (RFC 1034 4.3.2, RFC 4592)

struct ZoneTruth {
    /// owner (lower-case text) -> types present
    owners: BTreeMap<String, BTreeSet<u16>>,
    cuts: BTreeSet<String>,
    opt_out: bool,
}

#[derive(Debug, Clone, PartialEq, Eq)]
enum Outcome {
    /// name exists with the type
    Data,
    /// name exists (possibly as an empty non-terminal) without the type
    NoData { ent: bool },
    /// no such name, wildcard at the closest encloser has the type
    WildcardData { source: String, labels_below_ce: usize },
    /// no such name, wildcard at the closest encloser lacks the type
    WildcardNoData { source: String },
    /// no such name and no applicable wildcard
    NxDomain,
    /// at or below a delegation: referral (not judged)
    Referral,
}

impl ZoneTruth {
    fn build(p: &Plan) -> Self {
        let mut owners: BTreeMap<String, BTreeSet<u16>> = BTreeMap::new();
        let apex = owners.entry("example.".into()).or_default();
        apex.insert(u16::from(RecordType::SOA));
        apex.insert(u16::from(RecordType::NS));
        owners.entry("ns.example.".into()).or_default().insert(u16::from(RecordType::A));
        for o in &p.owners {
            let e = owners.entry(uname(&o.labels).to_lowercase().to_string()).or_default();
            if o.types == 4 {
                e.insert(u16::from(RecordType::CNAME));
                continue;
            }
            if o.types & 1 != 0 {
                e.insert(u16::from(RecordType::A));
            }
            if o.types & 2 != 0 {
                e.insert(u16::from(RecordType::TXT));
            }
        }
        let mut cuts = BTreeSet::new();
        if let Some(d) = &p.delegation {
            let dn = uname(d).to_lowercase().to_string();
            owners.entry(dn.clone()).or_default().insert(u16::from(RecordType::NS));
            cuts.insert(dn);
        }
        owners.retain(|_, t| !t.is_empty());
        Self { owners, cuts, opt_out: p.nsec3 && p.opt_out }
    }
    fn node_exists(&self, name: &str) -> bool {
        self.owners.keys().any(|o| o == name || o.ends_with(&format!(".{name}")))
    }
    fn has_type(&self, name: &str, t: RecordType) -> bool {
        // a CNAME at the name answers every type (the response then carries the CNAME)
        self.owners.get(name).map(|s| s.contains(&u16::from(t)) || s.contains(&u16::from(RecordType::CNAME))).unwrap_or(false)
    }
    fn eval(&self, qname: &Name, qtype: RecordType) -> Outcome {
        let q = qname.to_lowercase();
        let qs = q.to_string();
        // delegations: at the cut only DS is answered from this zone; below it, referral
        for c in &self.cuts {
            if qs.ends_with(&format!(".{c}")) || (qs == *c && (qtype != RecordType::DS || self.opt_out)) {
                // (under opt-out an unsigned delegation has no NSEC3 record of its own: what can be
                // "proved" about it is inherently ambiguous, RFC 5155 12.2 — not judged)
                return Outcome::Referral;
            }
        }
        // a CNAME whose target (ns.example., A only) lacks the type gives a CNAME + NODATA
        // chain, i.e. two proofs in one response: outside the simple claims judged here
        let cname_chain_nodata = |owner: &str| self.owners.get(owner).map(|s| s.contains(&u16::from(RecordType::CNAME))).unwrap_or(false) && !matches!(qtype, RecordType::A | RecordType::CNAME);
        if self.node_exists(&qs) {
            if cname_chain_nodata(&qs) {
                return Outcome::Referral;
            }
            return if self.has_type(&qs, qtype) { Outcome::Data } else { Outcome::NoData { ent: !self.owners.contains_key(&qs) } };
        }
        // closest encloser
        let mut ce = q.base_name();
        let mut below = 1;
        while !self.node_exists(&ce.to_string()) {
            ce = ce.base_name();
            below += 1;
        }
        let source = format!("*.{}", ce).replace("*..", "*.");
        if self.owners.contains_key(&source) {
            if cname_chain_nodata(&source) {
                return Outcome::Referral;
            }
            if self.has_type(&source, qtype) {
                Outcome::WildcardData { source, labels_below_ce: below }
            } else {
                Outcome::WildcardNoData { source }
            }
        } else {
            Outcome::NxDomain
        }
    }
}

// ------------------------------------------------------------------------------------------

fn zone_spec(p: &Plan, alt: bool) -> ZoneSpec {
    let o = n("example.");
    let mut records = vec![
        Record::from_rdata(o.clone(), 300, RData::SOA(SOA::new(n("ns.example."), n("admin.example."), 1, 3600, 600, 86400, 60))),
        Record::from_rdata(o.clone(), 300, RData::NS(NS(n("ns.example.")))),
        Record::from_rdata(n("ns.example."), 300, RData::A(A::new(192, 0, 2, 53))),
    ];
    for (i, ow) in p.owners.iter().enumerate() {
        let name = uname(&ow.labels);
        if ow.types == 4 {
            records.push(Record::from_rdata(name.clone(), 300, RData::CNAME(hickory_proto::rr::rdata::CNAME(n("ns.example.")))));
            continue;
        }
        if ow.types & 1 != 0 {
            records.push(Record::from_rdata(name.clone(), 300, RData::A(A::new(192, 0, 2, 100 + i as u8))));
        }
        if ow.types & 2 != 0 {
            records.push(Record::from_rdata(name.clone(), 300, RData::TXT(TXT::new(vec![format!("t{i}")]))));
        }
    }
    if let Some(d) = &p.delegation {
        records.push(Record::from_rdata(uname(d), 300, RData::NS(NS(n("ns.elsewhere.")))));
    }
    if uses_child_zone(p) {
        records.push(Record::from_rdata(n("z.example."), 300, RData::NS(NS(n("ns.z.example.")))));
        records.push(super::dnssec::ds_for(&KeyRef::ed(1), &n("z.example.")));
    }
    let nx = if p.nsec3 {
        let mut salt: Vec<u8> = (0..p.salt_len).map(|i| 0xA0 + i).collect();
        if alt {
            salt.push(0xEE);
        }
        Nx::Nsec3 { salt, iterations: p.iterations, opt_out: p.opt_out }
    } else {
        Nx::Nsec
    };
    ZoneSpec { origin: o, records, nx, keys: vec![KeyRef::ed(0)], sig_duration_s: 86_400 }
}

fn uses_child_zone(p: &Plan) -> bool {
    p.nsec3 && p.rewrites.iter().any(|r| matches!(r, Rewrite::ChildZoneProof(_)))
}

fn b32hex(bytes: &[u8]) -> String {
    const A: &[u8; 32] = b"0123456789abcdefghijklmnopqrstuv";
    let mut out = String::new();
    let (mut acc, mut bits) = (0u32, 0);
    for b in bytes {
        acc = (acc << 8) | *b as u32;
        bits += 8;
        while bits >= 5 {
            bits -= 5;
            out.push(A[((acc >> bits) & 31) as usize] as char);
        }
    }
    if bits > 0 {
        out.push(A[((acc << (5 - bits)) & 31) as usize] as char);
    }
    out
}

fn bump(h: &[u8], up: bool) -> Vec<u8> {
    let mut v = h.to_vec();
    for b in v.iter_mut().rev() {
        if up {
            let (x, o) = b.overflowing_add(1);
            *b = x;
            if !o {
                break;
            }
        } else {
            let (x, o) = b.overflowing_sub(1);
            *b = x;
            if !o {
                break;
            }
        }
    }
    v
}

/// the attacker's signed child zone: NSEC3-typed RRsets at `<hash>.z.example.` that, read as
/// records of example., match the apex, cover the next closer name and the apex wildcard of the
/// victim, and match the victim itself with an empty type bitmap
fn child_zone_spec(p: &Plan, victim: &Name) -> ZoneSpec {
    use hickory_proto::dnssec::rdata::NSEC3;
    use hickory_proto::dnssec::Nsec3HashAlgorithm;
    let o = n("z.example.");
    let salt: Vec<u8> = (0..p.salt_len).map(|i| 0xA0 + i).collect();
    let params = (salt.clone(), p.iterations);
    let mut records = vec![
        Record::from_rdata(o.clone(), 300, RData::SOA(SOA::new(n("ns.z.example."), n("admin.z.example."), 1, 3600, 600, 86400, 60))),
        Record::from_rdata(o.clone(), 300, RData::NS(NS(n("ns.z.example.")))),
        Record::from_rdata(n("ns.z.example."), 300, RData::A(A::new(192, 0, 2, 54))),
    ];
    let apex = n("example.");
    let mut plant = |owner_hash: Vec<u8>, next: Vec<u8>, types: Vec<RecordType>| {
        let owner = n(&format!("{}.z.example.", b32hex(&owner_hash)));
        let rd = NSEC3::new(Nsec3HashAlgorithm::SHA1, false, p.iterations, salt.clone(), next, types);
        records.push(Record::from_rdata(owner, 300, RData::DNSSEC(DNSSECRData::NSEC3(rd))));
    };
    let h_apex = chain_key(&apex, Some(&params));
    plant(h_apex.clone(), bump(&h_apex, true), vec![RecordType::NS, RecordType::SOA, RecordType::DNSKEY, RecordType::NSEC3PARAM, RecordType::RRSIG]);
    // next closer name below the apex on the way to the victim
    let mut next_closer = victim.clone();
    while next_closer.num_labels() > apex.num_labels() + 1 {
        next_closer = next_closer.base_name();
    }
    let mut covered: Vec<Vec<u8>> = Vec::new();
    for target in [next_closer, n("*.example."), victim.clone()] {
        let h = chain_key(&target, Some(&params));
        if h == h_apex || covered.contains(&h) {
            continue;
        }
        covered.push(h.clone());
        plant(bump(&h, false), bump(&h, true), vec![RecordType::A, RecordType::RRSIG]);
    }
    // the victim "exists" without any type (NODATA variant); owner hash = H(victim)
    let hv = chain_key(victim, Some(&params));
    if hv != h_apex {
        plant(hv.clone(), bump(&bump(&hv, true), true), vec![RecordType::RRSIG, RecordType::NSEC]);
    }
    ZoneSpec { origin: o, records, nx: Nx::Nsec, keys: vec![KeyRef::ed(1)], sig_duration_s: 86_400 }
}

/// a denial RRset with its signatures
#[derive(Clone)]
struct Denial {
    owner: Name,
    records: Vec<Record>,
}

async fn harvest(z: &ZoneRt) -> Vec<Denial> {
    let recs = z.handler.records().await;
    let mut out = Vec::new();
    for (k, set) in recs.iter() {
        if !matches!(k.record_type, RecordType::NSEC | RecordType::NSEC3) {
            continue;
        }
        let mut v: Vec<Record> = set.records_without_rrsigs().cloned().collect();
        v.extend(set.rrsigs().iter().cloned());
        out.push(Denial { owner: set.name().clone(), records: v });
    }
    out
}

/// order key of a name in the chain: canonical name order for NSEC, hash order for NSEC3
fn chain_key(name: &Name, nsec3: Option<&(Vec<u8>, u16)>) -> Vec<u8> {
    match nsec3 {
        Some((salt, it)) => hickory_proto::dnssec::Nsec3HashAlgorithm::SHA1.hash(salt, name, *it).map(|d| d.as_ref().to_vec()).unwrap_or_default(),
        None => {
            // canonical order: compare label by label from the right, lower-cased
            let mut k = Vec::new();
            for l in name.to_lowercase().iter().rev() {
                k.extend_from_slice(l);
                k.push(0);
            }
            k
        }
    }
}

fn denial_key(d: &Denial, nsec3: Option<&(Vec<u8>, u16)>) -> Vec<u8> {
    match nsec3 {
        Some(_) => d.owner.iter().next().and_then(|l| data_encoding_decode(l)).unwrap_or_default(),
        None => chain_key(&d.owner, None),
    }
}

/// base32hex (no padding) decoder for NSEC3 owner labels
fn data_encoding_decode(label: &[u8]) -> Option<Vec<u8>> {
    let mut bits = 0u32;
    let mut nbits = 0;
    let mut out = Vec::new();
    for c in label {
        let v = match c.to_ascii_lowercase() {
            b'0'..=b'9' => c - b'0',
            c2 @ b'a'..=b'v' => c2 - b'a' + 10,
            _ => return None,
        } as u32;
        bits = (bits << 5) | v;
        nbits += 5;
        if nbits >= 8 {
            nbits -= 8;
            out.push((bits >> nbits) as u8);
            bits &= (1 << nbits) - 1;
        }
    }
    Some(out)
}

fn predecessor_proof(qname: &Name, harvested: &[Denial], nsec3: Option<&(Vec<u8>, u16)>) -> Vec<Denial> {
    let zone = Name::from_ascii("example.").unwrap();
    let mut keyed: Vec<(Vec<u8>, &Denial)> = harvested.iter().map(|d| (denial_key(d, nsec3), d)).collect();
    keyed.sort_by(|a, b| a.0.cmp(&b.0));
    let mut picked: Vec<Denial> = Vec::new();
    let mut add = |d: &Denial| {
        if !picked.iter().any(|x| x.owner == d.owner) {
            picked.push(d.clone());
        }
    };
    // names whose absence has to be "shown": the query name, and below every ancestor the next
    // closer name and the wildcard
    let mut targets: Vec<Name> = vec![qname.clone()];
    let mut anc = qname.base_name();
    let mut child = qname.clone();
    loop {
        targets.push(child.clone());
        if let Ok(w) = anc.prepend_label("*") {
            targets.push(w);
        }
        // the record matching the ancestor (closest encloser candidate)
        let k = chain_key(&anc, nsec3);
        if let Some((_, d)) = keyed.iter().find(|(kk, _)| *kk == k) {
            add(d);
        }
        if anc == zone || anc.is_root() {
            break;
        }
        child = anc.clone();
        anc = anc.base_name();
    }
    for t in targets {
        let k = chain_key(&t, nsec3);
        // strict predecessor in chain order (wrapping to the last record)
        let pred = keyed.iter().rev().find(|(kk, _)| *kk < k).or_else(|| keyed.last());
        if let Some((_, d)) = pred {
            add(d);
        }
    }
    picked
}

/// the denial records of `delivered` an honest validator may rest on: genuine records of the
/// zone (data and owner unchanged) that arrive together with one of their genuine RRSIGs
fn usable_facts(delivered: &Message, genuine: &[&Denial]) -> (Vec<NsecFact>, Vec<Nsec3Fact>) {
    let (mut v1, mut v3) = (Vec::new(), Vec::new());
    for r in delivered.authorities.iter().filter(|r| matches!(r.record_type(), RecordType::NSEC | RecordType::NSEC3)) {
        let Some(d) = genuine.iter().find(|d| d.owner == r.name && d.records.iter().any(|g| g.data == r.data)) else { continue };
        let signed = delivered.authorities.iter().any(|s| s.name == r.name && s.record_type() == RecordType::RRSIG && is_denial(s) && d.records.iter().any(|g| g.data == s.data));
        if !signed {
            continue;
        }
        match &r.data {
            RData::DNSSEC(DNSSECRData::NSEC(x)) => v1.push(NsecFact { owner: r.name.clone(), next: x.next_domain_name().clone(), types: x.type_bit_maps().collect() }),
            RData::DNSSEC(DNSSECRData::NSEC3(x)) => {
                let Some(oh) = r.name.iter().next().and_then(data_encoding_decode) else { continue };
                v3.push(Nsec3Fact { owner_hash: oh, next_hash: x.next_hashed_owner_name().to_vec(), types: x.type_bit_maps().collect(), opt_out: x.opt_out(), salt: x.salt().to_vec(), iterations: x.iterations() });
            }
            _ => {}
        }
    }
    (v1, v3)
}

/// the response validated once more without its last-of-chain NSEC3 record (owner hash > next
/// hash): `Some(still secure)`, or `None` when the response holds no such record
async fn secure_without_wrap(router: &Router, delivered: &Message, victim: &Query, opts: DnsRequestOptions, p: &Plan) -> Option<bool> {
    let is_wrap = |r: &Record| match &r.data {
        RData::DNSSEC(DNSSECRData::NSEC3(n)) => r.name.iter().next().and_then(data_encoding_decode).map(|own| own.as_slice() > n.next_hashed_owner_name()).unwrap_or(false),
        _ => false,
    };
    let wo: Name = delivered.authorities.iter().find(|r| is_wrap(r)).map(|r| r.name.clone())?;
    let mut m2 = delivered.clone();
    m2.authorities.retain(|r| !(r.name == wo && is_denial(r)));
    let victim3 = victim.clone();
    router.set_tamper(move |_n, q, genuine| if *q == victim3 { (Some(m2.clone()), true) } else { (Some(genuine), false) });
    let v2 = DnssecDnsHandle::with_trust_anchor(router.clone(), anchors_for(&[KeyRef::ed(0)])).nsec3_iteration_limits(Some(p.soft_limit), Some(p.hard_limit));
    let r2 = v2.lookup(victim.clone(), opts).next().await;
    // (a response left without any NSEC3 record is no longer accepted "on the strength of NSEC3
    // records", whatever the proofs of its remaining SOA / NS records say)
    let still_has_denial = delivered.authorities.iter().any(|r| r.record_type() == RecordType::NSEC3 && r.name != wo);
    Some(match &r2 {
        Some(Ok(resp)) => {
            let all: Vec<&Record> = resp.answers.iter().chain(resp.authorities.iter()).filter(|r| r.record_type() != RecordType::RRSIG).collect();
            still_has_denial && !all.is_empty() && all.iter().all(|r| r.proof == Proof::Secure)
        }
        _ => false,
    })
}

fn is_denial(r: &Record) -> bool {
    matches!(r.record_type(), RecordType::NSEC | RecordType::NSEC3) || matches!(&r.data, RData::DNSSEC(DNSSECRData::RRSIG(s)) if matches!(s.input().type_covered, RecordType::NSEC | RecordType::NSEC3))
}

fn denial_owners(m: &Message) -> Vec<Name> {
    let mut v: Vec<Name> = Vec::new();
    for r in m.authorities.iter().filter(|r| is_denial(r)) {
        if !v.contains(&r.name) {
            v.push(r.name.clone());
        }
    }
    v
}

fn gen_rewrite(r: &mut Rng, nsec3: bool) -> Rewrite {
    match r.below(if nsec3 { 10 } else { 9 }) {
        0 => Rewrite::FlipRcode,
        1 => Rewrite::PredecessorProof,
        2 => Rewrite::DropDenial(1 + r.below(7) as u8),
        3 => Rewrite::AddDenial(r.below(16) as u8),
        4 => Rewrite::ReplaceDenial(r.next_u64() as u16),
        5 => Rewrite::StripAnswer,
        6 => Rewrite::DropSoa,
        7 => Rewrite::ReplayWildcard(r.below(8) as u8),
        8 => {
            if nsec3 {
                Rewrite::FlipRcode
            } else {
                if r.chance(1, 2) { Rewrite::RelabelWildcardDenial(r.below(4) as u8) } else { Rewrite::ForgedApexNsec(r.below(2) as u8) }
            }
        }
        _ => {
            if r.chance(1, 2) {
                Rewrite::AddAltChain(r.below(16) as u8)
            } else {
                Rewrite::ChildZoneProof(r.below(2) as u8)
            }
        }
    }
}

fn gen_plan(seed: u64, nsec3: bool) -> Plan {
    let mut r = Rng::new(seed);
    let mut sim = SimConfig::from_seed(seed);
    sim.step_budget = 2_000_000;
    let mut owners: Vec<Owner> = Vec::new();
    let n_owners = 2 + r.usize_below(5);
    for _ in 0..n_owners {
        let depth = 1 + r.usize_below(3);
        let mut labels: Vec<u8> = (0..depth).map(|_| r.below(2) as u8).collect();
        // a wildcard label only as the leftmost label
        if r.chance(1, 3) {
            labels[0] = 2;
        }
        if owners.iter().any(|o| o.labels == labels) {
            continue;
        }
        let types = if r.chance(1, 7) { 4 } else { 1 + r.below(3) as u8 };
        owners.push(Owner { labels, types });
    }
    let delegation = if r.chance(1, 5) {
        let d = vec![r.below(2) as u8];
        // keep it a pure delegation: nothing else at or below it
        if owners.iter().any(|o| o.labels.ends_with(&d)) {
            None
        } else {
            Some(d)
        }
    } else {
        None
    };
    let qdepth = 1 + r.usize_below(3);
    let mut qname: Vec<u8> = (0..qdepth).map(|_| r.below(2) as u8).collect();
    let fault_free = r.chance(2, 5);
    let rewrites = if fault_free { vec![] } else { (0..1 + r.usize_below(3)).map(|_| gen_rewrite(&mut r, nsec3)).collect() };
    // (a hard limit below the soft limit is a legal configuration: above the hard limit the verdict is Bogus)
    let (soft, hard) = *r.pick(&[(100u16, 500u16), (100, 500), (2, 8), (0, 1), (100, 2), (9, 0), (500, 100)]);
    Plan {
        sim,
        nsec3,
        salt_len: r.below(3) as u8,
        iterations: if nsec3 { *r.pick(&[0u16, 0, 1, 3, 9, 120, 600]) } else { 0 },
        opt_out: nsec3 && r.chance(1, 3),
        soft_limit: soft,
        hard_limit: hard,
        owners,
        delegation,
        qname,
        qtype: r.below(5) as u8,
        rewrites,
    }
}

pub struct DenialPart {
    pub nsec3: bool,
}

impl Part for DenialPart {
    fn name(&self) -> &'static str {
        if self.nsec3 {
            "nsec3"
        } else {
            "nsec"
        }
    }
    fn runs(&self, tier: Tier) -> u64 {
        match tier {
            Tier::Quick => 10_000,
            Tier::Thorough => 500_000,
        }
    }
    fn block(&self, _t: Tier) -> u64 {
        32
    }
    fn gen(&self, seed: u64, _tier: Tier) -> Value {
        serde_json::to_value(gen_plan(seed, self.nsec3)).unwrap()
    }
    fn run(&self, plan: &Value, trace: bool) -> Report {
        let mut p: Plan = serde_json::from_value(plan.clone()).expect("plan");
        p.sim.trace = trace;
        p.owners.retain(|o| !o.labels.is_empty() && o.labels.len() <= 3);
        let truth = ZoneTruth::build(&p);
        let out_class = truth.eval(&uname(&p.qname), qtype_of(p.qtype));
        let mut sig = mix(outcome_code(&out_class) ^ (p.qtype as u64) << 8 ^ (p.nsec3 as u64) << 12 ^ (p.opt_out as u64) << 13 ^ ((p.iterations > p.soft_limit) as u64) << 14 ^ ((p.iterations > p.hard_limit) as u64) << 15 ^ (p.delegation.is_some() as u64) << 16);
        for rw in &p.rewrites {
            sig = mix(sig ^ rewrite_code(*rw));
        }
        sig = mix(sig ^ p.owners.len() as u64);
        let nontrivial = !p.rewrites.is_empty() || !matches!(out_class, Outcome::Data);
        let p2 = p.clone();
        let out = exec::run(&p.sim, async move { scenario(p2).await });
        finish(out, sig, nontrivial, if self.nsec3 { "C09.stall" } else { "C08.stall" })
    }
    fn shrink(&self, plan: &Value) -> Vec<Value> {
        let Ok(p) = serde_json::from_value::<Plan>(plan.clone()) else { return vec![] };
        let mut out = Vec::new();
        for i in 0..p.rewrites.len() {
            let mut q = p.clone();
            q.rewrites.remove(i);
            out.push(q);
        }
        for i in 0..p.owners.len() {
            let mut q = p.clone();
            q.owners.remove(i);
            out.push(q);
        }
        for i in 0..p.owners.len() {
            if p.owners[i].types == 3 {
                let mut q = p.clone();
                q.owners[i].types = 1;
                out.push(q);
            }
        }
        if p.delegation.is_some() {
            let mut q = p.clone();
            q.delegation = None;
            out.push(q);
        }
        if p.opt_out {
            let mut q = p.clone();
            q.opt_out = false;
            out.push(q);
        }
        if p.iterations != 0 {
            let mut q = p.clone();
            q.iterations = 0;
            out.push(q);
        }
        if p.salt_len != 0 {
            let mut q = p.clone();
            q.salt_len = 0;
            out.push(q);
        }
        out.into_iter().map(|q| serde_json::to_value(q).unwrap()).collect()
    }
    fn describe(&self) -> Describe {
        Describe {
            rule: "plan = (zone: 2-6 owner names over labels {a,b,*} depth<=3 (wildcard leftmost only) with A/TXT, optional insecure delegation; NSEC, or NSEC3 with salt length 0-2, iterations in {0,1,3,9,120,600}, opt-out; validator iteration limits), victim question (any universe name x {A,TXT,AAAA,NS,DS}), 0-3 rewrites of the genuine response using only harvested genuine signed material and unsigned header fields: flip rcode, drop a subset of denial RRsets, add / replace by other denial RRsets of the zone, strip the answer, drop the SOA, replay a wildcard expansion for another name, add records of a second NSEC3 chain; non-trivial = any rewrite or any non-positive truth class; distinct by (truth class of the question, qtype, zone options, rewrite kinds, zone size)".into(),
            real: vec!["validator: DnssecDnsHandle::verify_response, verify_nsec / find_nsec_covering_record / no_closer_matches, verify_nsec3 (closest encloser proof, covering, opt-out, iteration limits)", "authoritative side: InMemoryZoneHandler lookup (RFC 1034 algorithm, wildcard synthesis), nsec_zone / NSEC3 chain construction in secure_zone_mut, closest_nsec / proof() selection, Catalog::build_authoritative_response"],
            stub: vec!["router + attacker rewriting the response in flight", "independent RFC 1034 / RFC 4592 zone evaluator (oracle)"],
            assumptions: vec!["soundness oracle: every signed record the attacker can use is genuine, so a Secure verdict for a claim that is false in the zone is a violation; an insufficient proof for a claim that happens to be true is not flagged"],
        }
    }
}

fn outcome_code(o: &Outcome) -> u64 {
    match o {
        Outcome::Data => 1,
        Outcome::NoData { ent: false } => 2,
        Outcome::NoData { ent: true } => 3,
        Outcome::WildcardData { labels_below_ce, .. } => 4 + (*labels_below_ce as u64).min(3) * 16,
        Outcome::WildcardNoData { .. } => 5,
        Outcome::NxDomain => 6,
        Outcome::Referral => 7,
    }
}

fn outcome_name(o: &Outcome) -> String {
    match o {
        Outcome::Data => "data".into(),
        Outcome::NoData { ent: false } => "nodata".into(),
        Outcome::NoData { ent: true } => "ent-nodata".into(),
        Outcome::WildcardData { labels_below_ce, .. } => format!("wildcard-data-{}-below-ce", (*labels_below_ce).min(3)),
        Outcome::WildcardNoData { .. } => "wildcard-nodata".into(),
        Outcome::NxDomain => "nxdomain".into(),
        Outcome::Referral => "referral".into(),
    }
}

fn rewrite_code(r: Rewrite) -> u64 {
    match r {
        Rewrite::FlipRcode => 1,
        Rewrite::DropDenial(_) => 2,
        Rewrite::AddDenial(_) => 3,
        Rewrite::ReplaceDenial(_) => 4,
        Rewrite::StripAnswer => 5,
        Rewrite::DropSoa => 6,
        Rewrite::ReplayWildcard(_) => 7,
        Rewrite::AddAltChain(_) => 8,
        Rewrite::PredecessorProof => 9,
        Rewrite::RelabelWildcardDenial(_) => 10,
        Rewrite::ChildZoneProof(_) => 11,
        Rewrite::ForgedApexNsec(_) => 12,
    }
}

fn rewrite_name(r: Rewrite) -> String {
    format!("{r:?}").split('(').next().unwrap().to_string()
}

async fn scenario(p: Plan) {
    let id = if p.nsec3 { "C09" } else { "C08" };
    let truth = ZoneTruth::build(&p);
    let zone = build_zone(&zone_spec(&p, false));
    let harvested = harvest(&zone).await;
    // the zone's signed SOA (a genuine negative response carries it)
    let soa_set: Vec<Record> = {
        let recs = zone.handler.records().await;
        let mut v = Vec::new();
        for (k, set) in recs.iter() {
            if k.record_type == RecordType::SOA {
                v.extend(set.records_without_rrsigs().cloned());
                v.extend(set.rrsigs().iter().cloned());
            }
        }
        v
    };
    let alt_harvest = if p.nsec3 && p.rewrites.iter().any(|r| matches!(r, Rewrite::AddAltChain(_))) { harvest(&build_zone(&zone_spec(&p, true))).await } else { vec![] };
    let victim = Query::new(uname(&p.qname), qtype_of(p.qtype));
    let mut zones = vec![zone];
    let mut child_sets: Vec<Denial> = Vec::new();
    if uses_child_zone(&p) {
        let child = build_zone(&child_zone_spec(&p, &victim.name));
        child_sets = harvest(&child).await.into_iter().filter(|d| d.records.iter().any(|r| r.record_type() == RecordType::NSEC3)).collect();
        zones.push(child);
    }
    let world = Arc::new(World { zones });
    let router = Router::new(world.clone());
    let mut opts = DnsRequestOptions::default();
    opts.use_edns = true;
    opts.edns_set_dnssec_ok = true;

    // wildcard donors: genuine expanded answers for other names of the universe
    let mut donors: Vec<Message> = Vec::new();
    if p.rewrites.iter().any(|r| matches!(r, Rewrite::ReplayWildcard(_))) {
        for l1 in 0..2u8 {
            for l2 in 0..2u8 {
                for depth in 1..=2 {
                    let labels: Vec<u8> = if depth == 1 { vec![l1] } else { vec![l1, l2] };
                    let q = Query::new(uname(&labels), victim.query_type);
                    if let Outcome::WildcardData { .. } = truth.eval(&q.name, q.query_type) {
                        let mut m = Message::query();
                        m.add_query(q);
                        m.edns.get_or_insert_with(Default::default).set_dnssec_ok(true);
                        if let Ok(b) = m.to_vec() {
                            if let Some(rb) = world.answer(0, &b).await {
                                if let Ok(rm) = Message::from_vec(&rb) {
                                    donors.push(rm);
                                }
                            }
                        }
                    }
                }
            }
        }
    }

    let nsec3_params: Option<(Vec<u8>, u16)> = if p.nsec3 { Some(((0..p.salt_len).map(|i| 0xA0 + i).collect(), p.iterations)) } else { None };
    let applied = Arc::new(std::sync::Mutex::new(Vec::<String>::new()));
    {
        let rewrites = p.rewrites.clone();
        let victim2 = victim.clone();
        let harvested = harvested.clone();
        let soa_set = soa_set.clone();
        let child_sets = child_sets.clone();
        let hv_label = nsec3_params.as_ref().map(|pr| b32hex(&chain_key(&victim.name, Some(pr))));
        let alt = alt_harvest.clone();
        let applied = applied.clone();
        let donors = donors.clone();
        router.set_tamper(move |_nth, q, genuine| {
            if *q != victim2 || rewrites.is_empty() {
                return (Some(genuine), false);
            }
            let mut m = genuine.clone();
            for rw in &rewrites {
                let before = m.clone();
                match *rw {
                    Rewrite::FlipRcode => {
                        m.metadata.response_code = if m.metadata.response_code == ResponseCode::NXDomain { ResponseCode::NoError } else { ResponseCode::NXDomain };
                    }
                    Rewrite::DropDenial(mask) => {
                        let owners = denial_owners(&m);
                        let drop: Vec<Name> = owners.iter().enumerate().filter(|(i, _)| mask & (1 << (i % 8)) != 0).map(|(_, o)| o.clone()).collect();
                        m.authorities.retain(|r| !(is_denial(r) && drop.contains(&r.name)));
                    }
                    Rewrite::AddDenial(k) => {
                        if !harvested.is_empty() {
                            let d = &harvested[k as usize % harvested.len()];
                            if !m.authorities.iter().any(|r| is_denial(r) && r.name == d.owner) {
                                m.authorities.extend(d.records.iter().cloned());
                            }
                        }
                    }
                    Rewrite::ReplaceDenial(mask) => {
                        m.authorities.retain(|r| !is_denial(r));
                        for (i, d) in harvested.iter().enumerate() {
                            if mask & (1 << (i % 16)) != 0 {
                                m.authorities.extend(d.records.iter().cloned());
                            }
                        }
                    }
                    Rewrite::StripAnswer => m.answers.clear(),
                    Rewrite::DropSoa => m.authorities.retain(|r| r.record_type() != RecordType::SOA && !matches!(&r.data, RData::DNSSEC(DNSSECRData::RRSIG(s)) if s.input().type_covered == RecordType::SOA)),
                    Rewrite::ReplayWildcard(k) => {
                        if !donors.is_empty() {
                            let d = &donors[k as usize % donors.len()];
                            let donor_name = d.queries.first().map(|q| q.name.clone());
                            let mut d2 = d.clone();
                            for r in d2.answers.iter_mut() {
                                if Some(&r.name) == donor_name.as_ref() {
                                    r.name = victim2.name.clone();
                                }
                            }
                            m.answers = d2.answers;
                            m.authorities = d2.authorities;
                            m.metadata.response_code = ResponseCode::NoError;
                        }
                    }
                    Rewrite::PredecessorProof => {
                        let picked = predecessor_proof(&victim2.name, &harvested, nsec3_params.as_ref());
                        m.answers.clear();
                        m.metadata.response_code = ResponseCode::NXDomain;
                        m.authorities.retain(|r| !is_denial(r));
                        if !m.authorities.iter().any(|r| r.record_type() == RecordType::SOA) {
                            m.authorities.extend(soa_set.iter().cloned());
                        }
                        for d in picked {
                            m.authorities.extend(d.records.iter().cloned());
                        }
                    }
                    Rewrite::RelabelWildcardDenial(k) => {
                        let wild: Vec<&Denial> = harvested.iter().filter(|d| d.owner.iter().next().map(|l| l == b"*").unwrap_or(false)).collect();
                        if !wild.is_empty() {
                            let d = wild[k as usize % wild.len()];
                            m.answers.clear();
                            m.metadata.response_code = ResponseCode::NoError;
                            m.authorities.retain(|r| !is_denial(r));
                            if !m.authorities.iter().any(|r| r.record_type() == RecordType::SOA) {
                                m.authorities.extend(soa_set.iter().cloned());
                            }
                            for r in &d.records {
                                let mut r = r.clone();
                                r.name = victim2.name.clone();
                                m.authorities.push(r);
                            }
                        }
                    }
                    Rewrite::ForgedApexNsec(kind) => {
                        use hickory_proto::dnssec::rdata::NSEC;
                        let apex = Name::from_ascii("example.").unwrap();
                        m.answers.clear();
                        m.authorities.retain(|r| !is_denial(r));
                        if !m.authorities.iter().any(|r| r.record_type() == RecordType::SOA) {
                            m.authorities.extend(soa_set.iter().cloned());
                        }
                        let (owner, next) = if kind == 0 { (apex.clone(), apex.clone()) } else { (victim2.name.clone(), apex.clone()) };
                        // NXDOMAIN: the apex NSEC "covers" everything; NODATA: an NSEC at the victim without its type
                        let forged = NSEC::new(next, [RecordType::NS, RecordType::SOA, RecordType::RRSIG, RecordType::NSEC, RecordType::DNSKEY]);
                        m.authorities.push(Record::from_rdata(owner, 60, RData::DNSSEC(DNSSECRData::NSEC(forged))));
                        m.metadata.response_code = if kind == 0 { ResponseCode::NXDomain } else { ResponseCode::NoError };
                    }
                    Rewrite::ChildZoneProof(kind) => {
                        if !child_sets.is_empty() {
                            m.answers.clear();
                            m.authorities.retain(|r| !is_denial(r));
                            if !m.authorities.iter().any(|r| r.record_type() == RecordType::SOA) {
                                m.authorities.extend(soa_set.iter().cloned());
                            }
                            let is_victim_match = |d: &Denial| hv_label.as_ref().map(|l| d.owner.to_ascii().to_lowercase().starts_with(&format!("{l}."))).unwrap_or(false);
                            if kind == 0 {
                                m.metadata.response_code = ResponseCode::NXDomain;
                                // apex match + covers; a record matching the victim's own hash is left out
                                for d in child_sets.iter().filter(|d| !is_victim_match(d)) {
                                    m.authorities.extend(d.records.iter().cloned());
                                }
                            } else {
                                m.metadata.response_code = ResponseCode::NoError;
                                for d in child_sets.iter().filter(|d| is_victim_match(d)) {
                                    m.authorities.extend(d.records.iter().cloned());
                                }
                            }
                        }
                    }
                    Rewrite::AddAltChain(k) => {
                        if !alt.is_empty() {
                            let d = &alt[k as usize % alt.len()];
                            m.authorities.extend(d.records.iter().cloned());
                        }
                    }
                }
                if m != before {
                    applied.lock().unwrap().push(rewrite_name(*rw));
                    exec::count(&format!("fault.rewrite.{}", rewrite_name(*rw)));
                }
            }
            let tampered = m != genuine;
            (Some(m), tampered)
        });
    }

    let validator = DnssecDnsHandle::with_trust_anchor(router.clone(), anchors_for(&[KeyRef::ed(0)])).nsec3_iteration_limits(Some(p.soft_limit), Some(p.hard_limit));
    let result = validator.lookup(victim.clone(), opts).next().await;
    let exchanges = router.exchanges();
    let Some(main) = exchanges.iter().find(|e| e.query == victim) else {
        exec::violate(&format!("{id}.harness"), "", "victim query never reached the zone".into());
        return;
    };
    let delivered = main.delivered.clone().unwrap_or_else(|| main.genuine.clone());
    let tampered = main.tampered;
    let applied_now = {
        let mut a = applied.lock().unwrap().clone();
        a.sort();
        a.dedup();
        a.join("+")
    };
    let qt = victim.query_type;
    let outcome = truth.eval(&victim.name, qt);
    exec::log(&format!("delivered rcode={:?} an={} ns={:?}; verdict {}", delivered.metadata.response_code, delivered.answers.len(), delivered.authorities.iter().map(|r| format!("{} {}", r.name, r.record_type())).collect::<Vec<_>>(), match &result { Some(Ok(r)) => format!("Ok rcode={:?} an={} ns={}", r.metadata.response_code, r.answers.len(), r.authorities.len()), Some(Err(e)) => format!("Err {e}"), None => "none".into() }));
    exec::count(&format!("probe.truth.{}", outcome_name(&outcome)));

    // ---- what does the delivered response claim? --------------------------------------------
    let rcode = delivered.metadata.response_code;
    let answer_recs: Vec<&Record> = delivered.answers.iter().filter(|r| r.record_type() != RecordType::RRSIG).collect();
    let wildcard_labels = delivered.answers.iter().find_map(|r| match &r.data {
        RData::DNSSEC(DNSSECRData::RRSIG(s)) if s.input().num_labels < r.name.num_labels() => Some(s.input().num_labels),
        _ => None,
    });
    #[derive(Debug, PartialEq)]
    enum Claim {
        NxDomain,
        NoData,
        Expansion,
        Positive,
    }
    // what is claimed follows from the content first: a response that carries an answer for
    // the question is a positive (or wildcard-expanded) answer whatever its unsigned rcode says
    let claim = if !answer_recs.is_empty() {
        if wildcard_labels.is_some() {
            Claim::Expansion
        } else {
            Claim::Positive
        }
    } else if rcode == ResponseCode::NXDomain {
        Claim::NxDomain
    } else {
        Claim::NoData
    };
    let claim_true = match (&claim, &outcome) {
        (_, Outcome::Referral) => true, // not judged
        // RFC 5155 8.6: under opt-out a DS NODATA answer for a name without an NSEC3 record of
        // its own is legitimate (the name may be an unsigned delegation inside an opt-out span)
        (Claim::NoData, Outcome::NxDomain) | (Claim::NoData, Outcome::WildcardData { .. }) | (Claim::NoData, Outcome::WildcardNoData { .. }) if p.nsec3 && p.opt_out && qt == RecordType::DS => true,
        (Claim::NxDomain, Outcome::NxDomain) => true,
        (Claim::NxDomain, _) => false,
        (Claim::NoData, Outcome::NoData { .. }) | (Claim::NoData, Outcome::WildcardNoData { .. }) => true,
        (Claim::NoData, _) => false,
        (Claim::Expansion, Outcome::WildcardData { .. }) => true,
        (Claim::Expansion, _) => false,
        (Claim::Positive, Outcome::Data) => true,
        (Claim::Positive, _) => false,
    };

    // ---- the validator's verdict ----------------------------------------------------------------
    let over_soft = p.nsec3 && p.iterations > p.soft_limit;
    let over_hard = p.nsec3 && p.iterations > p.hard_limit;
    let involves_denial = delivered.authorities.iter().any(|r| matches!(r.record_type(), RecordType::NSEC | RecordType::NSEC3));
    match &result {
        Some(Ok(resp)) => {
            let all: Vec<&Record> = resp.answers.iter().chain(resp.authorities.iter()).filter(|r| r.record_type() != RecordType::RRSIG).collect();
            let secure = !all.is_empty() && all.iter().all(|r| r.proof == Proof::Secure);
            exec::count(if secure { "probe.verdict.secure" } else { "probe.verdict.ok-not-secure" });
            if secure && !claim_true {
                let _ = &applied_now;
                let has_soa = delivered.authorities.iter().any(|r| r.record_type() == RecordType::SOA);
                // Attribution to the known defect of `find_covering_record`'s wrap-around branch
                // (the last NSEC3 record of the chain, owner hash > next hash, "covers" every
                // hash): the same response without that record is validated again; if it is then
                // no longer accepted, the false denial needed the record.
                let mut needs_wrap = false;
                if matches!(claim, Claim::NxDomain | Claim::NoData) {
                    if let Some(still_secure) = secure_without_wrap(&router, &delivered, &victim, opts, &p).await {
                        needs_wrap = !still_secure;
                        exec::count(if needs_wrap { "probe.false-denial.needs-last-nsec3" } else { "probe.false-denial.without-last-nsec3" });
                    }
                }
                // (one defect, one key: which truth class the false denial contradicts does not
                // distinguish anything once it is established that the last-of-chain record is
                // what made the validator accept it)
                let shape = if needs_wrap { "false-denial:needs-last-nsec3".to_string() } else { format!("{:?}-for-{}{}", claim, outcome_name(&outcome).split("-below").next().unwrap().trim_end_matches(|c: char| c.is_ascii_digit()).trim_end_matches('-'), if has_soa { "" } else { ":no-soa" }) };
                if exec::violate(&format!("{id}.unsound"), &shape, format!("{} {}: response claiming {:?} (rcode {:?}, {} answers) accepted as Secure, but the zone says {:?}; rewrites {:?}; owners {:?}; opt_out={} delegation={:?}", victim.name, qt, claim, rcode, answer_recs.len(), outcome, p.rewrites, p.owners, p.opt_out, p.delegation)) {
                    return;
                }
            }
            // ---- entailment: Secure only if the usable records prove the claim (whether or not
            // the claim happens to be true in this zone) ------------------------------------------
            // a referral (NOERROR, no answer, no SOA, NS RRset of a delegation point on the way to
            // the query name) is not a negative answer: the NSEC/NSEC3 next to it speaks for DS only
            let apex_name = n("example.");
            let referral_shape = rcode == ResponseCode::NoError && answer_recs.is_empty() && !delivered.authorities.iter().any(|r| r.record_type() == RecordType::SOA) && delivered.authorities.iter().any(|r| r.record_type() == RecordType::NS && r.name != apex_name && r.name.zone_of(&victim.name));
            if secure && claim_true && claim != Claim::Positive && !referral_shape {
                let genuine: Vec<&Denial> = harvested.iter().chain(alt_harvest.iter()).collect();
                let (f1, f3) = usable_facts(&delivered, &genuine);
                let ck = match claim {
                    Claim::NxDomain => ClaimKind::NxDomain,
                    Claim::NoData => ClaimKind::NoData,
                    _ => ClaimKind::Expansion(wildcard_labels.unwrap_or(0)),
                };
                let apex = n("example.");
                let verdict = if !involves_denial {
                    // no NSEC/NSEC3 record at all: nothing is accepted "on the strength of" denial
                    // records; legitimate at or below an insecure delegation (referral), otherwise
                    // a signed zone's negative answer was taken as Secure without any proof
                    if matches!(outcome, Outcome::Referral) { Ok(()) } else { Err("no-denial-records".to_string()) }
                } else if p.nsec3 {
                    nsec3_entails(&apex, &victim.name, qt, ck, &f3, false)
                } else {
                    nsec_entails(&apex, &victim.name, qt, ck, &f1)
                };
                exec::count(if verdict.is_ok() { "probe.entailment.proved" } else { "probe.entailment.not-proved" });
                if let Err(mut reason) = verdict {
                    // the recorded wrap-around defect: the proof is complete once the last-of-chain
                    // record is read the way `find_covering_record` reads it, and the validator no
                    // longer accepts the response without that record
                    if p.nsec3 && involves_denial && nsec3_entails(&apex, &victim.name, qt, ck, &f3, true).is_ok() && secure_without_wrap(&router, &delivered, &victim, opts, &p).await == Some(false) {
                        exec::count("probe.unproven.needs-last-nsec3");
                        reason = "needs-last-nsec3".into();
                    }
                    let has_soa = delivered.authorities.iter().any(|r| r.record_type() == RecordType::SOA);
                    let shape = if reason == "needs-last-nsec3" { reason.clone() } else { format!("{:?}:{reason}{}", claim, if has_soa { "" } else { ":no-soa" }) };
                    if exec::violate(&format!("{id}.unproven"), &shape, format!("{} {}: response claiming {:?} (rcode {:?}) accepted as Secure although the usable records do not prove it ({reason}); zone truth {:?}; usable NSEC {:?} NSEC3 {}; delivered authority {:?}; rewrites {:?}; owners {:?}; opt_out={} delegation={:?}", victim.name, qt, claim, rcode, outcome, f1.iter().map(|f| format!("{}->{}", f.owner, f.next)).collect::<Vec<_>>(), f3.len(), delivered.authorities.iter().map(|r| format!("{} {}", r.name, r.record_type())).collect::<Vec<_>>(), p.rewrites, p.owners, p.opt_out, p.delegation)) {
                        return;
                    }
                }
            }
            // (a positive, non-expanded answer rests on its RRSIGs, not on NSEC3 records)
            if involves_denial && over_hard && claim != Claim::Positive && (secure || !tampered) {
                if exec::violate(&format!("{id}.iterations"), if secure { "secure-over-hard-limit" } else { "not-bogus-over-hard-limit" }, format!("{} {}: iteration count {} exceeds the hard limit {} (soft limit {}) but the response was accepted ({})", victim.name, qt, p.iterations, p.hard_limit, p.soft_limit, if secure { "Secure" } else { "not Bogus" })) {
                    return;
                }
            }
            if secure && involves_denial && over_soft && claim != Claim::Positive {
                if exec::violate(&format!("{id}.iterations"), "secure-over-soft-limit", format!("{} {}: Secure although the NSEC3 iteration count {} exceeds the soft limit {}", victim.name, qt, p.iterations, p.soft_limit)) {
                    return;
                }
            }
        }
        Some(Err(e)) => {
            let proof = match e {
                NetError::Dns(DnsError::Nsec { proof, .. }) => Some(*proof),
                _ => None,
            };
            exec::count(&format!("probe.verdict.err-{}", proof.map(|p| format!("{p:?}")).unwrap_or_else(|| "other".into())));
            if involves_denial && over_hard && !tampered && proof != Some(Proof::Bogus) {
                if exec::violate(&format!("{id}.iterations"), "not-bogus-over-hard-limit", format!("{} {}: iteration count {} exceeds the hard limit {} but the verdict is {e}", victim.name, qt, p.iterations, p.hard_limit)) {
                    return;
                }
            }
            // completeness: the server's own, untouched proof must be accepted
            if !tampered && !claim_true {
                // the server's answer itself contradicts RFC 1034 / 4592 (C10's subject): the
                // validator rejecting it is not a completeness failure
                exec::count("probe.server_claim_false_and_rejected");
            } else if !tampered && !matches!(outcome, Outcome::Referral) && !(involves_denial && (over_soft || over_hard)) {
                let shape = format!("{}{}", outcome_name(&outcome), if p.opt_out { ":opt-out" } else { "" });
                if exec::violate(&format!("{id}.incomplete"), &shape, format!("{} {}: the authoritative server's own response (rcode {:?}, {} answers, {} authority records) was rejected: {e}; owners {:?} delegation {:?}", victim.name, qt, rcode, answer_recs.len(), delivered.authorities.len(), p.owners, p.delegation)) {
                    return;
                }
            }
        }
        None => {}
    }
    // the server's own claim must be the truth (C10 territory; recorded as a probe only)
    if !tampered && !claim_true {
        exec::count("probe.server_claim_differs_from_rfc1034");
    }
}

pub fn def_c08() -> CheckDef {
    CheckDef { id: "C08", level: "exploration", parts: vec![Box::new(DenialPart { nsec3: false })] }
}

pub fn def_c09() -> CheckDef {
    CheckDef { id: "C09", level: "exploration", parts: vec![Box::new(DenialPart { nsec3: true })] }
}
