//! Reference model: a literal transcription of RFC 2136 sections 3.2 (prerequisites), 3.4.1
//! (prescan) and 3.4.2 (update) over a BTreeMap.  Shares only the *data types* (Name, RData,
//! RecordType) with hickory; none of hickory's update logic.

use std::collections::{BTreeMap, BTreeSet};

use hickory_proto::op::ResponseCode;
use hickory_proto::rr::{DNSClass, Name, RData, RecordType};
use serde::{Deserialize, Serialize};

/// one record of an UPDATE message as the generator describes it
#[derive(Clone, Debug, Serialize, Deserialize, PartialEq)]
pub struct RecSpec {
    /// index into the name universe
    pub name: usize,
    /// 0 = IN (zone class), 1 = ANY, 2 = NONE, 3 = CH (wrong class)
    pub class: u8,
    /// index into the type universe (see `TYPES`)
    pub rtype: usize,
    pub ttl: u32,
    /// index of the rdata value (None = empty rdata)
    pub rdata: Option<usize>,
}

pub const TYPES: [RecordType; 9] = [RecordType::A, RecordType::TXT, RecordType::CNAME, RecordType::NS, RecordType::SOA, RecordType::MX, RecordType::ANY, RecordType::AXFR, RecordType::NULL];

/// lower-cased owner name in presentation form
pub type Key = (String, u16);

#[derive(Clone, Debug, PartialEq, Eq)]
pub struct Zone {
    pub origin: String,
    /// (owner, type) -> set of rdata (wire-independent textual form)
    pub rrsets: BTreeMap<Key, BTreeSet<String>>,
    pub serial: u32,
}

pub fn key_of(name: &Name, t: RecordType) -> Key {
    (name.to_lowercase().to_ascii(), u16::from(t))
}

/// canonical text of an rdata, with the SOA serial masked (the serial is tracked separately)
pub fn rdata_text(r: &RData) -> String {
    match r {
        RData::SOA(s) => format!("SOA {} {} * {} {} {} {}", s.mname.to_lowercase(), s.rname.to_lowercase(), s.refresh, s.retry, s.expire, s.minimum),
        RData::CNAME(c) => format!("CNAME {}", c.0.to_lowercase()),
        RData::NS(n) => format!("NS {}", n.0.to_lowercase()),
        RData::MX(m) => format!("MX {} {}", m.preference, m.exchange.to_lowercase()),
        other => format!("{} {}", other.record_type(), other),
    }
}

/// RFC 1982 serial comparison: a < b
pub fn serial_lt(a: u32, b: u32) -> bool {
    a != b && (b.wrapping_sub(a) as i32) > 0
}

pub struct Rec<'a> {
    pub name: &'a Name,
    pub class: DNSClass,
    pub rtype: RecordType,
    pub ttl: u32,
    /// None = RDLENGTH 0
    pub rdata: Option<&'a RData>,
}

fn is_meta(t: RecordType) -> bool {
    matches!(t, RecordType::AXFR | RecordType::IXFR) || u16::from(t) == 253 || u16::from(t) == 254
}

impl Zone {
    fn in_zone(&self, name: &Name) -> bool {
        let n = name.to_lowercase().to_ascii();
        n == self.origin || n.ends_with(&format!(".{}", self.origin)) || self.origin == "."
    }
    fn name_in_use(&self, name: &Name) -> bool {
        let n = name.to_lowercase().to_ascii();
        self.rrsets.iter().any(|((o, _), set)| *o == n && !set.is_empty())
    }
    fn rrset(&self, name: &Name, t: RecordType) -> Option<&BTreeSet<String>> {
        self.rrsets.get(&key_of(name, t)).filter(|s| !s.is_empty())
    }

    /// why hickory's query-style prerequisite evaluation may differ from RFC 2136 for `rr`
    pub fn lookup_cause(&self, rr: &Rec<'_>) -> Option<&'static str> {
        let owner = rr.name.to_lowercase().to_ascii();
        let cname_t = u16::from(RecordType::CNAME);
        let ns_t = u16::from(RecordType::NS);
        if rr.rtype != RecordType::CNAME && self.rrsets.get(&(owner.clone(), cname_t)).map(|s| !s.is_empty()).unwrap_or(false) {
            return Some("cname-at-owner");
        }
        // delegation (NS without SOA) at the owner or above it, below the apex
        let mut n = rr.name.to_lowercase();
        while n.to_ascii() != self.origin && !n.is_root() {
            if self.rrsets.get(&(n.to_ascii(), ns_t)).map(|s| !s.is_empty()).unwrap_or(false) {
                return Some("at-or-below-delegation");
            }
            n = n.base_name();
        }
        if rr.class == DNSClass::IN {
            if let (Some(rd), Some(set)) = (rr.rdata, self.rrsets.get(&key_of(rr.name, rr.rtype))) {
                if set.contains(&rdata_text(rd)) && set.len() > 1 {
                    return Some("value-prereq-subset-of-rrset");
                }
            }
        }
        None
    }

    /// 3.2 — Process Prerequisite Section.  Returns the response codes of *all* failing
    /// prerequisites (empty = satisfied): which of several failures is reported depends on the
    /// evaluation order, which the property does not fix.
    pub fn prerequisites(&self, recs: &[Rec<'_>]) -> Vec<ResponseCode> {
        let mut fails = Vec::new();
        let mut temp: BTreeMap<Key, BTreeSet<String>> = BTreeMap::new();
        for rr in recs {
            if rr.ttl != 0 {
                fails.push(ResponseCode::FormErr);
                continue;
            }
            if !self.in_zone(rr.name) {
                fails.push(ResponseCode::NotZone);
                continue;
            }
            match rr.class {
                DNSClass::ANY => {
                    if rr.rdata.is_some() {
                        fails.push(ResponseCode::FormErr);
                    } else if rr.rtype == RecordType::ANY {
                        if !self.name_in_use(rr.name) {
                            fails.push(ResponseCode::NXDomain);
                        }
                    } else if self.rrset(rr.name, rr.rtype).is_none() {
                        fails.push(ResponseCode::NXRRSet);
                    }
                }
                DNSClass::NONE => {
                    if rr.rdata.is_some() {
                        fails.push(ResponseCode::FormErr);
                    } else if rr.rtype == RecordType::ANY {
                        if self.name_in_use(rr.name) {
                            fails.push(ResponseCode::YXDomain);
                        }
                    } else if self.rrset(rr.name, rr.rtype).is_some() {
                        fails.push(ResponseCode::YXRRSet);
                    }
                }
                DNSClass::IN => {
                    // an RR with empty RDATA is still an RR of the prerequisite RRset; it can
                    // never equal a zone RR, so the set comparison below yields NXRRSET
                    let mut text = rr.rdata.map(rdata_text).unwrap_or_else(|| "<empty>".to_string());
                    if let Some(RData::SOA(soa)) = rr.rdata {
                        // the zone's SOA text has its serial masked (tracked in self.serial)
                        if soa.serial != self.serial {
                            text = format!("{text} [serial {} != zone serial]", soa.serial);
                        }
                    }
                    temp.entry(key_of(rr.name, rr.rtype)).or_default().insert(text);
                }
                _ => fails.push(ResponseCode::FormErr),
            }
        }
        for (k, set) in temp {
            if self.rrsets.get(&k) != Some(&set) {
                fails.push(ResponseCode::NXRRSet);
            }
        }
        fails
    }

    /// 3.4.1 — Prescan; all failure codes (empty = passes)
    pub fn prescan(&self, recs: &[Rec<'_>]) -> Vec<ResponseCode> {
        let mut fails = Vec::new();
        for rr in recs {
            if !self.in_zone(rr.name) {
                fails.push(ResponseCode::NotZone);
                continue;
            }
            let bad = match rr.class {
                DNSClass::IN => rr.rtype == RecordType::ANY || is_meta(rr.rtype),
                DNSClass::ANY => rr.ttl != 0 || rr.rdata.is_some() || is_meta(rr.rtype),
                DNSClass::NONE => rr.ttl != 0 || rr.rtype == RecordType::ANY || is_meta(rr.rtype),
                _ => true,
            };
            if bad {
                fails.push(ResponseCode::FormErr);
            }
        }
        fails
    }

    /// 3.4.2 — Update section; returns whether any update RR changed the zone content (even if
    /// a later RR of the same message undid it)
    pub fn update(&mut self, recs: &[Rec<'_>]) -> bool {
        let mut any_step = false;
        let apex = self.origin.clone();
        for rr in recs {
            let step_before = (self.rrsets.clone(), self.serial);
            self.update_one(rr, &apex);
            self.rrsets.retain(|_, s| !s.is_empty());
            if (self.rrsets.clone(), self.serial) != step_before {
                any_step = true;
            }
        }
        any_step
    }

    fn update_one(&mut self, rr: &Rec<'_>, apex: &str) {
        let apex = apex.to_string();
        for rr in [rr] {
            let owner = rr.name.to_lowercase().to_ascii();
            let k = key_of(rr.name, rr.rtype);
            match rr.class {
                DNSClass::IN => {
                    let Some(rd) = rr.rdata else { continue };
                    let cname_t = u16::from(RecordType::CNAME);
                    let has_cname = self.rrsets.get(&(owner.clone(), cname_t)).map(|s| !s.is_empty()).unwrap_or(false);
                    let has_other = self.rrsets.iter().any(|((o, t), s)| *o == owner && *t != cname_t && !s.is_empty());
                    if rr.rtype == RecordType::CNAME {
                        if has_other {
                            continue;
                        }
                    } else if has_cname {
                        continue;
                    }
                    if let RData::SOA(soa) = rd {
                        let have = self.rrsets.get(&k).map(|s| !s.is_empty()).unwrap_or(false);
                        // "If the TYPE is SOA and there is no Zone SOA RR, or the new SOA.SERIAL is
                        // lower (according to [RFC1982]) than or equal to the current Zone SOA RR's
                        // SOA.SERIAL, the Update RR is ignored."
                        if !have || !serial_lt(self.serial, soa.serial) {
                            continue;
                        }
                        let set = self.rrsets.entry(k).or_default();
                        set.clear();
                        set.insert(rdata_text(rd));
                        self.serial = soa.serial;
                        continue;
                    }
                    let set = self.rrsets.entry(k).or_default();
                    if rr.rtype == RecordType::CNAME {
                        set.clear();
                    }
                    set.insert(rdata_text(rd));
                }
                DNSClass::ANY => {
                    if rr.rtype == RecordType::ANY {
                        let soa_t = u16::from(RecordType::SOA);
                        let ns_t = u16::from(RecordType::NS);
                        self.rrsets.retain(|(o, t), _| *o != owner || (owner == apex && (*t == soa_t || *t == ns_t)));
                    } else if owner == apex && (rr.rtype == RecordType::SOA || rr.rtype == RecordType::NS) {
                        continue;
                    } else {
                        self.rrsets.remove(&k);
                    }
                }
                DNSClass::NONE => {
                    let Some(rd) = rr.rdata else { continue };
                    if rr.rtype == RecordType::SOA {
                        continue;
                    }
                    let text = rdata_text(rd);
                    if let Some(set) = self.rrsets.get_mut(&k) {
                        if rr.rtype == RecordType::NS && owner == apex && set.len() == 1 && set.contains(&text) {
                            continue;
                        }
                        set.remove(&text);
                        if set.is_empty() {
                            self.rrsets.remove(&k);
                        }
                    }
                }
                _ => {}
            }
        }
    }
}
