//! C13 — updates and signed-only transfers require a valid, timely TSIG.
//!
//! Two parties with skewed clocks (client = `SimTime`, server = `SimTimeB`), a faulty link that
//! tampers with request and reply bytes, wrong / unknown keys, replays after clock advances.
//! Oracle: the independent RFC 8945 checker in `tsig_ref` applied to the bytes as delivered.

use std::collections::{BTreeMap, BTreeSet};

use hickory_net::runtime::Time;
use hickory_net::xfer::Protocol;
use hickory_proto::op::{Message, Query, ResponseCode};
use hickory_proto::rr::rdata::tsig::TsigAlgorithm;
use hickory_proto::rr::{Name, RecordType, TSigVerifier, TSigner};
use hickory_server::zone_handler::AxfrPolicy;
use hsim::exec::{self, SimConfig};
use hsim::net::{self, SimTime, SimTimeB};
use hsim::rng::mix;
use hsim::supervisor::{CheckDef, Describe, Part, Report, Tier};
use hsim::Rng;
use serde::{Deserialize, Serialize};
use serde_json::Value;

use super::tsig_ref::{self, locate_tsig, ref_verify, Located, RefVerdict};
use super::upd_model::{Key, RecSpec};
use super::update::{self, build_update_message, finish, initial_records, new_handler, new_journal, universe, Server, UpdateMsg, KEY_NAME, KEY_SECRET};

const KEY2_NAME: &str = "second-key.example.com.";
const KEY2_SECRET: &[u8] = b"fedcba9876543210fedcba9876543210";
const FUDGE: u16 = 300;

#[derive(Serialize, Deserialize, Clone, Copy, Debug, PartialEq, Eq, PartialOrd, Ord)]
enum SignKind {
    Good,
    SecondKey,
    Unsigned,
    UnknownKey,
    WrongSecret,
    WrongAlg,
}

#[derive(Serialize, Deserialize, Clone, Copy, Debug, PartialEq, Eq, PartialOrd, Ord)]
enum Tamper {
    BitFlip(u32),
    ByteSet(u32, u8),
    Count(u8, i8),
    Time(i64),
    Fudge(u16),
    TruncMac(u8),
    OrigId(u16),
    Error(u16),
    KeyNameCase,
    RemoveTsig,
    NotLast,
    Trailing(u8),
}

#[derive(Serialize, Deserialize, Clone, Debug)]
enum Step {
    Update { msg: UpdateMsg, sign: SignKind, tamper: Option<Tamper>, skew_s: i64, reply_flip: Option<u32> },
    Axfr { sign: SignKind, tamper: Option<Tamper>, skew_s: i64, reply_flip: Option<u32> },
    /// deliver again the bytes delivered in step `of`
    Replay { of: usize, skew_s: i64 },
    Advance { secs: u64 },
}

#[derive(Serialize, Deserialize, Clone, Debug)]
struct Plan {
    sim: SimConfig,
    /// 0 Deny, 1 AllowAll, 2 AllowSigned
    axfr_policy: u8,
    two_keys: bool,
    steps: Vec<Step>,
}

fn signer_for(kind: SignKind) -> Option<TSigner> {
    let n = |s: &str| Name::from_ascii(s).unwrap();
    Some(match kind {
        SignKind::Good => TSigner::new(KEY_SECRET.to_vec(), TsigAlgorithm::HmacSha256, n(KEY_NAME), FUDGE).unwrap(),
        SignKind::SecondKey => TSigner::new(KEY2_SECRET.to_vec(), TsigAlgorithm::HmacSha256, n(KEY2_NAME), FUDGE).unwrap(),
        SignKind::Unsigned => return None,
        SignKind::UnknownKey => TSigner::new(KEY_SECRET.to_vec(), TsigAlgorithm::HmacSha256, n("nobody.example.com."), FUDGE).unwrap(),
        SignKind::WrongSecret => TSigner::new(b"this-is-not-the-configured-secret".to_vec(), TsigAlgorithm::HmacSha256, n(KEY_NAME), FUDGE).unwrap(),
        SignKind::WrongAlg => TSigner::new(KEY_SECRET.to_vec(), TsigAlgorithm::HmacSha512, n(KEY_NAME), FUDGE).unwrap(),
    })
}

/// region of the message a byte offset falls into (for stable violation shapes)
fn region(msg: &[u8], off: usize) -> String {
    if off < 2 {
        return "header-id".into();
    }
    if off < 4 {
        return format!("header-flags-byte{}", off);
    }
    if off < 12 {
        return "header-counts".into();
    }
    match locate_tsig(msg) {
        Ok(v) => {
            if off < v.start {
                "body".into()
            } else if off >= v.end {
                "after-tsig".into()
            } else if off >= v.off_time && off < v.off_fudge {
                "tsig-time".into()
            } else if off >= v.off_fudge && off < v.off_mac_len {
                "tsig-fudge".into()
            } else if off >= v.off_mac_len && off < v.off_mac_len + 2 {
                "tsig-maclen".into()
            } else if off >= v.off_mac_len + 2 && off < v.off_orig_id {
                "tsig-mac".into()
            } else if off >= v.off_orig_id && off < v.off_error {
                "tsig-origid".into()
            } else if off >= v.off_error && off < v.off_other_len {
                "tsig-error".into()
            } else if off >= v.off_other_len {
                "tsig-other".into()
            } else if off >= v.off_rdlen {
                "tsig-rdlen-alg".into()
            } else {
                "tsig-owner-type-class-ttl".into()
            }
        }
        Err(_) => "body".into(),
    }
}

fn apply_tamper(orig: &[u8], t: Tamper) -> (Vec<u8>, String) {
    let mut b = orig.to_vec();
    let view = locate_tsig(orig).ok();
    match t {
        Tamper::BitFlip(sel) => {
            let bit = sel as usize % (b.len() * 8);
            b[bit / 8] ^= 1 << (bit % 8);
            let r = region(orig, bit / 8);
            let name = if r.starts_with("header-flags") { format!("BitFlip@{r}.bit{}", bit % 8) } else { format!("BitFlip@{r}") };
            (b, name)
        }
        Tamper::ByteSet(sel, val) => {
            let off = sel as usize % b.len();
            if b[off] == val {
                b[off] = val.wrapping_add(1);
            } else {
                b[off] = val;
            }
            (b, format!("ByteSet@{}", region(orig, off)))
        }
        Tamper::Count(which, delta) => {
            let off = 4 + 2 * (which as usize % 4);
            let v = u16::from_be_bytes([b[off], b[off + 1]]).wrapping_add(delta as i16 as u16);
            b[off..off + 2].copy_from_slice(&v.to_be_bytes());
            (b, format!("Count{}", which % 4))
        }
        Tamper::Time(delta) => {
            if let Some(v) = &view {
                let t = (v.time as i64 + delta).max(0) as u64;
                b[v.off_time..v.off_time + 6].copy_from_slice(&[(t >> 40) as u8, (t >> 32) as u8, (t >> 24) as u8, (t >> 16) as u8, (t >> 8) as u8, t as u8]);
            }
            (b, "Time".into())
        }
        Tamper::Fudge(f) => {
            if let Some(v) = &view {
                b[v.off_fudge..v.off_fudge + 2].copy_from_slice(&f.to_be_bytes());
            }
            (b, "Fudge".into())
        }
        Tamper::TruncMac(newlen) => {
            if let Some(v) = &view {
                let newlen = (newlen as usize).min(v.mac.len().saturating_sub(1));
                let cut = v.mac.len() - newlen;
                let mac_start = v.off_mac_len + 2;
                b.drain(mac_start + newlen..mac_start + v.mac.len());
                b[v.off_mac_len..v.off_mac_len + 2].copy_from_slice(&(newlen as u16).to_be_bytes());
                let rdlen = u16::from_be_bytes([b[v.off_rdlen], b[v.off_rdlen + 1]]) - cut as u16;
                b[v.off_rdlen..v.off_rdlen + 2].copy_from_slice(&rdlen.to_be_bytes());
            }
            (b, "TruncMac".into())
        }
        Tamper::OrigId(x) => {
            if let Some(v) = &view {
                let nv = if x == v.orig_id { x.wrapping_add(1) } else { x };
                b[v.off_orig_id..v.off_orig_id + 2].copy_from_slice(&nv.to_be_bytes());
            }
            (b, "OrigId".into())
        }
        Tamper::Error(x) => {
            if let Some(v) = &view {
                let nv = if x == v.error { x.wrapping_add(1) } else { x };
                b[v.off_error..v.off_error + 2].copy_from_slice(&nv.to_be_bytes());
            }
            (b, "Error".into())
        }
        Tamper::KeyNameCase => {
            if let Some(v) = &view {
                // flip the case of the first letter of the owner name (not covered by the MAC:
                // the digest uses the canonical, lower-cased name)
                if let Some(o) = (v.start + 1..v.off_rdlen).find(|o| b[*o].is_ascii_alphabetic()) {
                    b[o] ^= 0x20;
                }
            }
            (b, "KeyNameCase".into())
        }
        Tamper::RemoveTsig => {
            if let Some(v) = &view {
                b.truncate(v.start);
                let ar = u16::from_be_bytes([b[10], b[11]]).saturating_sub(1);
                b[10..12].copy_from_slice(&ar.to_be_bytes());
            }
            (b, "RemoveTsig".into())
        }
        Tamper::NotLast => {
            // append an A record after the TSIG
            b.extend_from_slice(&[3, b'x', b'x', b'x', 0, 0, 1, 0, 1, 0, 0, 0, 60, 0, 4, 192, 0, 2, 99]);
            let ar = u16::from_be_bytes([b[10], b[11]]).wrapping_add(1);
            b[10..12].copy_from_slice(&ar.to_be_bytes());
            (b, "NotLast".into())
        }
        Tamper::Trailing(n) => {
            b.extend(std::iter::repeat(0xAA).take(1 + n as usize % 8));
            (b, "Trailing".into())
        }
    }
}

fn gen_tamper(r: &mut Rng) -> Tamper {
    match r.below(16) {
        0..=4 => Tamper::BitFlip(r.next_u64() as u32),
        5 => Tamper::ByteSet(r.next_u64() as u32, r.next_u64() as u8),
        6 => Tamper::Count(r.below(4) as u8, *r.pick(&[-1i8, 1, 1, 2])),
        7 => Tamper::Time(*r.pick(&[-1i64, 1, -301, 301, 100_000, -100_000, -1_000_000_000_000])),
        8 => Tamper::Fudge(*r.pick(&[0u16, 1, 65535, 299, 301])),
        9 => Tamper::TruncMac(*r.pick(&[0u8, 1, 10, 16, 31])),
        10 => Tamper::OrigId(r.next_u64() as u16),
        11 => Tamper::Error(*r.pick(&[16u16, 17, 18, 1])),
        12 => Tamper::KeyNameCase,
        13 => Tamper::RemoveTsig,
        14 => Tamper::NotLast,
        _ => Tamper::Trailing(r.below(8) as u8),
    }
}

fn gen_skew(r: &mut Rng) -> i64 {
    let f = FUDGE as i64;
    match r.below(10) {
        0..=4 => 0,
        5 => *r.pick(&[f - 1, -(f - 1), 10, -10]),
        6 => *r.pick(&[f, -f]),
        7 => *r.pick(&[f + 1, -(f + 1)]),
        8 => *r.pick(&[3600i64, -3600, 86400 * 400]),
        _ => r.range(0, 2 * FUDGE as u64) as i64 - f,
    }
}

fn gen_sign(r: &mut Rng) -> SignKind {
    match r.below(12) {
        0..=6 => SignKind::Good,
        7 => SignKind::SecondKey,
        8 => SignKind::Unsigned,
        9 => SignKind::UnknownKey,
        10 => SignKind::WrongSecret,
        _ => SignKind::WrongAlg,
    }
}

fn simple_update(r: &mut Rng) -> UpdateMsg {
    // effect-visible updates: add or delete a specific A / TXT record
    let name = *r.pick(&[1usize, 2, 3]);
    let spec = if r.chance(3, 5) {
        RecSpec { name, class: 0, rtype: *r.pick(&[0usize, 1]), ttl: 300, rdata: Some(r.usize_below(3)) }
    } else {
        RecSpec { name, class: 2, rtype: *r.pick(&[0usize, 1]), ttl: 0, rdata: Some(r.usize_below(3)) }
    };
    UpdateMsg { prereq: vec![], update: vec![spec] }
}

pub struct C13Part;

impl Part for C13Part {
    fn name(&self) -> &'static str {
        "tsig"
    }
    fn runs(&self, tier: Tier) -> u64 {
        match tier {
            Tier::Quick => 30_000,
            Tier::Thorough => 800_000,
        }
    }
    fn block(&self, _t: Tier) -> u64 {
        64
    }
    fn gen(&self, seed: u64, _tier: Tier) -> Value {
        let mut r = Rng::new(seed);
        let mut sim = SimConfig::from_seed(seed);
        sim.max_sim_ns = 4_000_000_000 * 1_000_000_000; // clock advances of days are cheap
        if r.chance(1, 25) {
            // a client whose clock was never set
            sim.epoch_s = *r.pick(&[0u64, 100, 299, 301]);
        }
        let fault_free = r.chance(1, 6);
        let n = 1 + r.usize_below(6);
        let mut steps: Vec<Step> = Vec::new();
        for _ in 0..n {
            let k = r.below(10);
            if fault_free {
                if k < 7 {
                    steps.push(Step::Update { msg: simple_update(&mut r), sign: SignKind::Good, tamper: None, skew_s: r.range(0, 200) as i64 - 100, reply_flip: None });
                } else {
                    steps.push(Step::Axfr { sign: SignKind::Good, tamper: None, skew_s: 0, reply_flip: None });
                }
                continue;
            }
            match k {
                0..=5 => {
                    let sign = gen_sign(&mut r);
                    let tamper = if r.chance(1, 2) { Some(gen_tamper(&mut r)) } else { None };
                    steps.push(Step::Update { msg: simple_update(&mut r), sign, tamper, skew_s: gen_skew(&mut r), reply_flip: if r.chance(1, 4) { Some(r.next_u64() as u32) } else { None } });
                }
                6..=7 => {
                    let sign = gen_sign(&mut r);
                    let tamper = if r.chance(1, 2) { Some(gen_tamper(&mut r)) } else { None };
                    steps.push(Step::Axfr { sign, tamper, skew_s: gen_skew(&mut r), reply_flip: if r.chance(1, 4) { Some(r.next_u64() as u32) } else { None } });
                }
                8 => {
                    if !steps.is_empty() {
                        // classic replay: undo, wait, replay
                        steps.push(Step::Advance { secs: *r.pick(&[1u64, 299, 300, 301, 302, 3600, 86400]) });
                        steps.push(Step::Replay { of: r.usize_below(steps.len()), skew_s: 0 });
                    }
                }
                _ => steps.push(Step::Advance { secs: *r.pick(&[1u64, 299, 301, 3600]) }),
            }
        }
        serde_json::to_value(Plan { sim, axfr_policy: r.below(3) as u8, two_keys: r.bool(), steps }).unwrap()
    }
    fn run(&self, plan: &Value, trace: bool) -> Report {
        let mut p: Plan = serde_json::from_value(plan.clone()).expect("plan");
        p.sim.trace = trace;
        let mut sig = mix(p.axfr_policy as u64 ^ (p.two_keys as u64) << 4);
        let mut nontrivial = false;
        for s in &p.steps {
            let code = match s {
                Step::Update { sign, tamper, skew_s, reply_flip, .. } => {
                    nontrivial |= tamper.is_some() || *sign != SignKind::Good || *skew_s != 0 || reply_flip.is_some();
                    1u64 << 40 | (*sign as u64) << 32 | tamper_code(tamper) << 16 | skew_class(*skew_s) << 8 | reply_flip.is_some() as u64
                }
                Step::Axfr { sign, tamper, skew_s, reply_flip } => {
                    nontrivial |= tamper.is_some() || *sign != SignKind::Good || *skew_s != 0 || reply_flip.is_some();
                    2u64 << 40 | (*sign as u64) << 32 | tamper_code(tamper) << 16 | skew_class(*skew_s) << 8 | reply_flip.is_some() as u64
                }
                Step::Replay { .. } => {
                    nontrivial = true;
                    3 << 40
                }
                Step::Advance { secs } => 4 << 40 | (*secs > FUDGE as u64) as u64,
            };
            sig = mix(sig ^ code);
        }
        let p2 = p.clone();
        let out = exec::run(&p.sim, async move { scenario(p2).await });
        finish(out, sig, nontrivial, "C13.stall")
    }
    fn shrink(&self, plan: &Value) -> Vec<Value> {
        let Ok(p) = serde_json::from_value::<Plan>(plan.clone()) else { return vec![] };
        let mut out = Vec::new();
        for i in 0..p.steps.len() {
            // removing a step invalidates later Replay indices: fix them up
            let mut q = p.clone();
            q.steps.remove(i);
            let mut ok = true;
            for s in q.steps.iter_mut() {
                if let Step::Replay { of, .. } = s {
                    if *of == i {
                        ok = false;
                    } else if *of > i {
                        *of -= 1;
                    }
                }
            }
            if ok && !q.steps.is_empty() {
                out.push(q);
            }
        }
        for i in 0..p.steps.len() {
            let mut q = p.clone();
            let changed = match &mut q.steps[i] {
                Step::Update { skew_s, reply_flip, .. } | Step::Axfr { skew_s, reply_flip, .. } => {
                    let c = *skew_s != 0 || reply_flip.is_some();
                    *skew_s = 0;
                    *reply_flip = None;
                    c
                }
                _ => false,
            };
            if changed {
                out.push(q);
            }
            let mut q = p.clone();
            let changed = match &mut q.steps[i] {
                Step::Update { tamper, .. } | Step::Axfr { tamper, .. } => tamper.take().is_some(),
                _ => false,
            };
            if changed {
                out.push(q);
            }
        }
        if p.two_keys {
            let mut q = p.clone();
            q.two_keys = false;
            out.push(q);
        }
        out.into_iter().map(|q| serde_json::to_value(q).unwrap()).collect()
    }
    fn describe(&self) -> Describe {
        Describe {
            rule: "plan = history of 1-6 steps {signed UPDATE, signed AXFR query, replay of an earlier delivered request, clock advance}; per request: signer in {configured key, second configured key, none, unknown key name, right name wrong secret, right name wrong algorithm}, optional tampering of the delivered bytes {single bit flip anywhere, byte set, section count edit, TSIG time/fudge/original-id/error edit, MAC truncation, key-name case flip, TSIG removed, RR appended after TSIG, trailing bytes}, server clock skew around +-fudge, optional bit flip in the reply; AXFR policy Deny/AllowAll/AllowSigned; one or two configured keys; non-trivial = any tampering, non-default signer, skew, replay; distinct by the sequence of (step kind, signer, tamper kind, skew class, reply tamper)".into(),
            real: vec!["client: Message::finalize / TSigner::sign_message, TSigVerifier::verify", "server: Request::from_bytes, Catalog::{update, lookup->zone_transfer}, SqliteZoneHandler::{authorize_update, authorize_axfr, authorized_tsig}, TSigner::verify_message_byte, signed_bitmessage_to_buf, TSigResponseContext::sign", "Time::current_time of both parties (SimTime / SimTimeB)"],
            stub: vec!["link (byte tampering, replay)", "independent RFC 8945 checker (oracle, ring HMAC)"],
            assumptions: vec!["exact window edge |now - time signed| == fudge is not asserted either way", "single-message AXFR responses (small zone)"],
        }
    }
}

fn tamper_code(t: &Option<Tamper>) -> u64 {
    match t {
        None => 0,
        Some(Tamper::BitFlip(_)) => 1,
        Some(Tamper::ByteSet(..)) => 2,
        Some(Tamper::Count(w, _)) => 3 + (*w as u64 % 4),
        Some(Tamper::Time(_)) => 8,
        Some(Tamper::Fudge(_)) => 9,
        Some(Tamper::TruncMac(_)) => 10,
        Some(Tamper::OrigId(_)) => 11,
        Some(Tamper::Error(_)) => 12,
        Some(Tamper::KeyNameCase) => 13,
        Some(Tamper::RemoveTsig) => 14,
        Some(Tamper::NotLast) => 15,
        Some(Tamper::Trailing(_)) => 16,
    }
}

fn skew_class(s: i64) -> u64 {
    let f = FUDGE as i64;
    match s.abs() {
        0 => 0,
        x if x < f => 1,
        x if x == f => 2,
        x if x == f + 1 => 3,
        _ => 4,
    }
}

struct Delivered {
    bytes: Vec<u8>,
    is_axfr: bool,
    /// the bytes carry the `Trailing` tamper (directly or through replays)
    trailing: bool,
}

async fn scenario(p: Plan) {
    let u = universe();
    let init = initial_records(&u, 100);
    let policy = match p.axfr_policy {
        0 => AxfrPolicy::Deny,
        1 => AxfrPolicy::AllowAll,
        _ => AxfrPolicy::AllowSigned,
    };
    let mut handler = new_handler(&u, Some(&init), policy).await;
    let mut keys: Vec<(&str, &[u8])> = vec![(KEY_NAME, KEY_SECRET)];
    let mut signers = vec![signer_for(SignKind::Good).unwrap()];
    if p.two_keys {
        keys.push((KEY2_NAME, KEY2_SECRET));
        signers.push(signer_for(SignKind::SecondKey).unwrap());
    }
    handler.set_tsig_signers(signers);
    handler.set_journal(new_journal()).await;
    let server = Server::new(&u, handler);
    let mut delivered: Vec<Option<Delivered>> = Vec::new();
    let mut next_id = 0x4000u16;

    for (si, step) in p.steps.iter().enumerate() {
        let mut replay_of_trailing = false;
        let (bytes, is_axfr, skew, verifier, tamper_name, sign_name, reply_flip): (Vec<u8>, bool, i64, Option<TSigVerifier>, String, String, Option<u32>) = match step {
            Step::Advance { secs } => {
                exec::sleep(std::time::Duration::from_secs(*secs)).await;
                delivered.push(None);
                continue;
            }
            Step::Replay { of, skew_s } => match delivered.get(*of).and_then(|d| d.as_ref()) {
                Some(d) => {
                    exec::count("fault.replay");
                    replay_of_trailing = d.trailing;
                    (d.bytes.clone(), d.is_axfr, *skew_s, None, "Replay".into(), "replayed".into(), None)
                }
                None => {
                    delivered.push(None);
                    continue;
                }
            },
            Step::Update { msg, sign, tamper, skew_s, reply_flip } => {
                next_id = next_id.wrapping_add(1);
                let mut m = build_update_message(&u, next_id, msg);
                let (b, v, tn) = match sign_and_tamper(&mut m, *sign, *tamper) {
                    Ok(x) => x,
                    Err(e) => {
                        exec::violate("C13.harness", "", e);
                        return;
                    }
                };
                (b, false, *skew_s, v, tn, format!("{sign:?}"), *reply_flip)
            }
            Step::Axfr { sign, tamper, skew_s, reply_flip } => {
                next_id = next_id.wrapping_add(1);
                let mut m = Message::query();
                m.metadata.id = next_id;
                m.add_query(Query::new(u.origin.clone(), RecordType::AXFR));
                let (b, v, tn) = match sign_and_tamper(&mut m, *sign, *tamper) {
                    Ok(x) => x,
                    Err(e) => {
                        exec::violate("C13.harness", "", e);
                        return;
                    }
                };
                (b, true, *skew_s, v, tn, format!("{sign:?}"), *reply_flip)
            }
        };
        delivered.push(Some(Delivered { bytes: bytes.clone(), is_axfr, trailing: tamper_name == "Trailing" || replay_of_trailing }));
        net::set_skew_b(skew);
        let server_now = SimTimeB::current_time();
        let verdict = ref_verify(&bytes, &keys, None);
        let (before, serial_before, _) = server.dump().await;
        let resp = match server.handle::<SimTimeB>(bytes.clone(), Protocol::Tcp).await {
            Ok(r) => r,
            Err(_) => {
                // the server front would answer FORMERR or drop; nothing reached the zone handler
                exec::count("probe.request_unparseable");
                None
            }
        };
        let (after, serial_after, _) = server.dump().await;
        let changed = before != after || serial_before != serial_after;
        let rmsg = resp.as_ref().and_then(|b| Message::from_vec(b).ok());
        // (a tampered byte may have turned the AXFR question into an ordinary one, which needs no
        // TSIG to be answered: a transfer is what the delivered bytes ask for)
        let asks_transfer = is_axfr && Message::from_vec(&bytes).map(|m| m.queries.first().map(|q| matches!(q.query_type, RecordType::AXFR | RecordType::IXFR)).unwrap_or(false)).unwrap_or(true);
        let zone_data_returned = rmsg.as_ref().map(|m| asks_transfer && !m.answers.is_empty()).unwrap_or(false);
        let rc = rmsg.as_ref().map(|m| m.metadata.response_code);
        if let Some(rc) = rc {
            exec::count(&format!("probe.rcode.{rc:?}"));
        }
        let (authentic, timely, edge) = match &verdict {
            RefVerdict::Valid { time, fudge, .. } => {
                let d = (server_now as i128 - *time as i128).unsigned_abs();
                (true, d < *fudge as u128, d == *fudge as u128)
            }
            _ => (false, false, false),
        };
        let vname = match &verdict {
            RefVerdict::Valid { .. } => {
                if timely {
                    "valid".to_string()
                } else if edge {
                    "valid-at-edge".to_string()
                } else {
                    "valid-but-stale".to_string()
                }
            }
            RefVerdict::Unsigned(Located::NoTsig) => "unsigned".into(),
            RefVerdict::Unsigned(Located::NotLast) => "tsig-not-last".into(),
            RefVerdict::Unsigned(Located::Malformed(_)) => "malformed".into(),
            RefVerdict::WrongKey => "wrong-key".into(),
            RefVerdict::BadMac => "bad-mac".into(),
        };
        exec::count(&format!("probe.ref.{vname}"));
        if tamper_name != "none" {
            exec::count(&format!("fault.tamper.{}", tamper_name.split('@').next().unwrap()));
        }
        if skew != 0 {
            exec::count("fault.clock_skew");
        }
        exec::log(&format!("step {si}: {sign_name} {tamper_name} skew={skew} ref={vname} rc={rc:?} changed={changed} data={zone_data_returned}"));

        // ---- soundness: an effect needs an authentic, timely request -------------------------
        let axfr_open = is_axfr && p.axfr_policy == 1;
        // bytes after the TSIG RR that the MAC still matches without: one fixed shape
        let trailing_only = (tamper_name == "Trailing" || replay_of_trailing) && vname == "tsig-not-last";
        if changed && !(authentic && (timely || edge)) {
            let shape = if trailing_only { "trailing-bytes-after-tsig".to_string() } else { format!("{tamper_name}:{sign_name}:{vname}") };
            if exec::violate("C13.unauthenticated-update", &shape, format!("step {si}: zone changed ({}) although the request as delivered is {vname} (server clock {server_now})", update::diff_zone(&after, &before))) {
                return;
            }
        }
        if zone_data_returned && !axfr_open && !(p.axfr_policy == 2 && authentic && (timely || edge)) {
            let pol = ["Deny", "AllowAll", "AllowSigned"][p.axfr_policy as usize];
            let shape = if trailing_only { "trailing-bytes-after-tsig".to_string() } else { format!("{pol}:{tamper_name}:{sign_name}:{vname}") };
            if exec::violate("C13.unauthenticated-transfer", &shape, format!("step {si}: zone transfer answered with {} records under policy {pol} although the request as delivered is {vname}", rmsg.as_ref().map(|m| m.answers.len()).unwrap_or(0))) {
                return;
            }
        }
        // ---- completeness: an untouched, timely, correctly keyed request is served ------------
        let untouched = tamper_name == "none";
        let good_key = sign_name == "Good" || (sign_name == "SecondKey" && p.two_keys);
        if untouched && good_key && timely && skew.abs() < FUDGE as i64 {
            if !is_axfr {
                if matches!(rc, Some(ResponseCode::NotAuth) | Some(ResponseCode::Refused) | None) {
                    if exec::violate("C13.valid-refused", &format!("update:{sign_name}"), format!("step {si}: valid in-window update answered {rc:?}")) {
                        return;
                    }
                }
            } else if p.axfr_policy != 0 && !zone_data_returned {
                if exec::violate("C13.valid-refused", &format!("axfr:{sign_name}"), format!("step {si}: valid in-window transfer request answered {rc:?} without data")) {
                    return;
                }
            }
            // the reply must verify at the client, and a modified reply must not
            if let (Some(mut v), Some(reply)) = (verifier, resp.clone()) {
                let RefVerdict::Valid { mac: req_mac, .. } = &verdict else { unreachable!() };
                let (reply2, flipped) = match reply_flip {
                    Some(sel) => {
                        let mut r2 = reply.clone();
                        let bit = sel as usize % (r2.len() * 8);
                        r2[bit / 8] ^= 1 << (bit % 8);
                        exec::count("fault.reply_bitflip");
                        (r2, Some(region(&reply, bit / 8)))
                    }
                    None => (reply.clone(), None),
                };
                let ref_reply = ref_verify(&reply2, &keys, Some(req_mac));
                let ok = v.verify(&reply2).is_ok();
                let ref_ok = matches!(ref_reply, RefVerdict::Valid { .. });
                if ok && !ref_ok {
                    if exec::violate("C13.reply-accepted", &format!("{}", flipped.clone().unwrap_or_else(|| "untouched".into())), format!("step {si}: client verifier accepted a reply whose MAC does not verify ({ref_reply:?})")) {
                        return;
                    }
                }
                if !ok && ref_ok && flipped.is_none() {
                    if exec::violate("C13.reply-rejected", "untouched", format!("step {si}: client verifier rejected the server's untouched, correctly signed reply")) {
                        return;
                    }
                }
                if flipped.is_some() && !ok {
                    exec::count("probe.tampered_reply_rejected");
                }
            }
        }
        // ---- a refused request returns no zone data and changes nothing (covered above) ------
    }
}

fn sign_and_tamper(m: &mut Message, sign: SignKind, tamper: Option<Tamper>) -> Result<(Vec<u8>, Option<TSigVerifier>, String), String> {
    let mut verifier = None;
    if let Some(s) = signer_for(sign) {
        verifier = m.finalize(&s, SimTime::current_time()).map_err(|e| format!("sign: {e}"))?;
    }
    let bytes = m.to_vec().map_err(|e| format!("encode: {e}"))?;
    match tamper {
        None => Ok((bytes, verifier, "none".into())),
        Some(t) => {
            let (b, name) = apply_tamper(&bytes, t);
            if b == bytes {
                Ok((bytes, verifier, "none".into()))
            } else {
                Ok((b, None, name))
            }
        }
    }
}

#[allow(dead_code)]
fn _types(_: BTreeMap<Key, BTreeSet<String>>, _: tsig_ref::TsigView) {}


// ------------------------------------------------------------------------------------------
// part "restart": the transfer policy across restarts.  The zone is started through the real
// `SqliteZoneHandler::try_from_config` on real files, stopped, and started again on the same
// journal; after every start unsigned / wrongly keyed / correctly signed AXFR requests arrive.

#[derive(Serialize, Deserialize, Clone, Debug)]
struct RestartPlan {
    sim: SimConfig,
    /// 0 Deny, 1 AllowAll, 2 AllowSigned
    axfr_policy: u8,
    /// per start: the signers of the AXFR requests sent after it, and whether a signed UPDATE
    /// is applied before the stop
    starts: Vec<(Vec<SignKind>, bool)>,
}

pub struct RestartPart;

impl Part for RestartPart {
    fn name(&self) -> &'static str {
        "restart"
    }
    fn runs(&self, tier: Tier) -> u64 {
        match tier {
            Tier::Quick => 1_500,
            Tier::Thorough => 40_000,
        }
    }
    fn block(&self, _t: Tier) -> u64 {
        16
    }
    fn gen(&self, seed: u64, _tier: Tier) -> Value {
        let mut r = Rng::new(seed);
        let sim = SimConfig::from_seed(seed);
        let n = 1 + r.usize_below(3);
        let starts = (0..n).map(|_| ((0..1 + r.usize_below(3)).map(|_| gen_sign(&mut r)).collect(), r.chance(1, 2))).collect();
        serde_json::to_value(RestartPlan { sim, axfr_policy: *r.pick(&[0u8, 2, 2, 1]), starts }).unwrap()
    }
    fn run(&self, plan: &Value, trace: bool) -> Report {
        let mut p: RestartPlan = serde_json::from_value(plan.clone()).expect("plan");
        p.sim.trace = trace;
        let mut sig = mix(p.axfr_policy as u64 ^ (p.starts.len() as u64) << 4);
        for (signs, upd) in &p.starts {
            for s in signs {
                sig = mix(sig ^ *s as u64);
            }
            sig = mix(sig ^ (*upd as u64) << 9);
        }
        let tag = mix(p.sim.sched_seed ^ 0xc13);
        let p2 = p.clone();
        let out = exec::run(&p.sim, async move { restart_scenario(p2, tag).await });
        finish(out, sig, p.starts.len() > 1, "C13.stall")
    }
    fn shrink(&self, plan: &Value) -> Vec<Value> {
        let Ok(p) = serde_json::from_value::<RestartPlan>(plan.clone()) else { return vec![] };
        let mut out = Vec::new();
        if p.starts.len() > 1 {
            for i in 0..p.starts.len() {
                let mut q = p.clone();
                q.starts.remove(i);
                out.push(q);
            }
        }
        for i in 0..p.starts.len() {
            if p.starts[i].0.len() > 1 {
                let mut q = p.clone();
                q.starts[i].0.pop();
                out.push(q);
            }
            if p.starts[i].1 {
                let mut q = p.clone();
                q.starts[i].1 = false;
                out.push(q);
            }
        }
        out.into_iter().map(|q| serde_json::to_value(q).unwrap()).collect()
    }
    fn describe(&self) -> Describe {
        Describe {
            rule: "plan = (transfer policy Deny / AllowAll / AllowSigned; 1-3 starts of the zone through the real try_from_config on real files — the first from the zone file, later ones from the journal the earlier ones left —, optionally a signed UPDATE before each stop; after every start 1-3 AXFR requests from {configured key, none, unknown key, wrong secret, wrong algorithm, second key}); non-trivial = at least one restart; distinct by policy, number of starts and signers".into(),
            real: vec!["SqliteZoneHandler::try_from_config (both branches: zone file and existing journal)", "Catalog zone transfer path, authorize_axfr, TSIG verification", "Journal on a real SQLite file"],
            stub: vec!["stop = dropping the handler", "no network: raw request bytes"],
            assumptions: vec!["files live on tmpfs"],
        }
    }
}

async fn restart_scenario(p: RestartPlan, tag: u64) {
    use super::update::{start_with_policy, zone_file_text, TempDir};
    let u = universe();
    let dir = TempDir::new(tag);
    let root = dir.0.clone();
    std::fs::write(root.join("example.com.zone"), zone_file_text(&u, 100)).expect("zone file");
    std::fs::write(root.join("update.key"), KEY_SECRET).expect("key file");
    let policy = match p.axfr_policy {
        0 => AxfrPolicy::Deny,
        1 => AxfrPolicy::AllowAll,
        _ => AxfrPolicy::AllowSigned,
    };
    let mut next_id = 0x6000u16;
    for (si, (signs, update_before_stop)) in p.starts.iter().enumerate() {
        let handler = match start_with_policy(&u, &root, policy).await {
            Ok(h) => h,
            Err(e) => {
                exec::violate("C13.harness", "", format!("start #{si}: {e}"));
                return;
            }
        };
        exec::count(if si == 0 { "probe.first_start" } else { "fault.restart_on_existing_journal" });
        let server = Server::new(&u, handler);
        for sign in signs {
            next_id = next_id.wrapping_add(1);
            let mut m = Message::query();
            m.metadata.id = next_id;
            m.add_query(Query::new(u.origin.clone(), RecordType::AXFR));
            let (bytes, _v, _tn) = match sign_and_tamper(&mut m, *sign, None) {
                Ok(x) => x,
                Err(e) => {
                    exec::violate("C13.harness", "", e);
                    return;
                }
            };
            let resp = match server.handle::<SimTime>(bytes, Protocol::Tcp).await {
                Ok(r) => r,
                Err(e) => {
                    exec::violate("C13.harness", "", e);
                    return;
                }
            };
            let served = resp.as_ref().and_then(|b| Message::from_vec(b).ok()).map(|m| !m.answers.is_empty()).unwrap_or(false);
            let may = match p.axfr_policy {
                0 => false,
                1 => true,
                _ => *sign == SignKind::Good,
            };
            exec::count(if served { "probe.transfer_served" } else { "probe.transfer_refused" });
            let pol = ["Deny", "AllowAll", "AllowSigned"][p.axfr_policy as usize % 3];
            let when = if si == 0 { "first-start" } else { "after-restart" };
            if served && !may {
                if exec::violate("C13.unauthenticated-transfer", &format!("{pol}:{sign:?}:{when}"), format!("start #{si}: zone transfer served to a request signed {sign:?} under policy {pol}")) {
                    return;
                }
            }
            if !served && may {
                if exec::violate("C13.valid-refused", &format!("axfr:{pol}:{sign:?}:{when}"), format!("start #{si}: a transfer request signed {sign:?} was refused under policy {pol}")) {
                    return;
                }
            }
        }
        if *update_before_stop {
            next_id = next_id.wrapping_add(1);
            let mut r = Rng::new(tag ^ si as u64);
            let mut m = build_update_message(&u, next_id, &simple_update(&mut r));
            if let Ok((bytes, _, _)) = sign_and_tamper(&mut m, SignKind::Good, None) {
                let _ = server.handle::<SimTime>(bytes, Protocol::Tcp).await;
            }
        }
        drop(server);
    }
}

pub fn def() -> CheckDef {
    CheckDef { id: "C13", level: "exploration", parts: vec![Box::new(C13Part), Box::new(C13Client), Box::new(RestartPart)] }
}

// ==========================================================================================
// part "client": the real client transports with a signer (UdpClientStream::with_signer,
// DnsMultiplexer::with_signer behind DnsExchange) talking over the simulated network to the
// real server path; the link tampers with the *reply*.

use std::net::{IpAddr, Ipv4Addr, SocketAddr};
use std::rc::Rc;

use futures_util::stream::StreamExt;
use hickory_net::tcp::TcpClientStream;
use hickory_net::udp::UdpClientStream;
use hickory_net::xfer::{DnsExchange, DnsHandle, DnsMultiplexer};
use hickory_net::runtime::{RuntimeProvider, Spawn};
use hickory_proto::op::{DnsRequest, DnsRequestOptions};
use hsim::net::{SimProvider, UdpOut};

const CLIENT_IP: IpAddr = IpAddr::V4(Ipv4Addr::new(10, 0, 0, 1));
const SERVER_ADDR: SocketAddr = SocketAddr::new(IpAddr::V4(Ipv4Addr::new(10, 0, 0, 53)), 53);

#[derive(Serialize, Deserialize, Clone, Copy, Debug, PartialEq, Eq, PartialOrd, Ord)]
enum ReplyTamper {
    None,
    StripTsig,
    BitFlip(u32),
    RewriteRcode(u8),
    /// replace the reply by an unsigned NOERROR message with the same id and question
    UnsignedForgery,
    TruncMac(u8),
    /// re-sign the (rewritten) reply with a key the client does not hold
    ResignWrongKey,
}

#[derive(Serialize, Deserialize, Clone, Debug)]
struct ClientPlan {
    sim: SimConfig,
    tcp: bool,
    msgs: Vec<(UpdateMsg, ReplyTamper)>,
    /// extra copies of the k-th delivered reply sent right after it (duplicate datagrams / frames)
    #[serde(default)]
    dup: Vec<u8>,
}

pub struct C13Client;

impl Part for C13Client {
    fn name(&self) -> &'static str {
        "client"
    }
    fn runs(&self, tier: Tier) -> u64 {
        match tier {
            Tier::Quick => 8_000,
            Tier::Thorough => 200_000,
        }
    }
    fn block(&self, _t: Tier) -> u64 {
        32
    }
    fn gen(&self, seed: u64, _tier: Tier) -> Value {
        let mut r = Rng::new(seed);
        let mut sim = SimConfig::from_seed(seed);
        sim.step_budget = 400_000;
        let n = 1 + r.usize_below(3);
        let msgs = (0..n)
            .map(|_| {
                let t = match r.below(10) {
                    0..=2 => ReplyTamper::None,
                    3..=4 => ReplyTamper::StripTsig,
                    5 => ReplyTamper::BitFlip(r.next_u64() as u32),
                    6 => ReplyTamper::RewriteRcode(r.below(16) as u8),
                    7 => ReplyTamper::UnsignedForgery,
                    8 => ReplyTamper::TruncMac(*r.pick(&[0u8, 10, 16, 31])),
                    _ => ReplyTamper::ResignWrongKey,
                };
                (simple_update(&mut r), t)
            })
            .collect();
        let tcp = r.bool();
        let dup = (0..n).map(|_| *r.pick(&[0u8, 0, 1, 2])).collect();
        serde_json::to_value(ClientPlan { sim, tcp, msgs, dup }).unwrap()
    }
    fn run(&self, plan: &Value, trace: bool) -> Report {
        let mut p: ClientPlan = serde_json::from_value(plan.clone()).expect("plan");
        p.sim.trace = trace;
        let mut sig = mix(p.tcp as u64 ^ p.dup.iter().fold(0u64, |a, d| a * 3 + *d as u64) << 8);
        for (_, t) in &p.msgs {
            sig = mix(sig
                ^ match t {
                    ReplyTamper::None => 1,
                    ReplyTamper::StripTsig => 2,
                    ReplyTamper::BitFlip(_) => 3,
                    ReplyTamper::RewriteRcode(_) => 4,
                    ReplyTamper::UnsignedForgery => 5,
                    ReplyTamper::TruncMac(_) => 6,
                    ReplyTamper::ResignWrongKey => 7,
                });
        }
        let nontrivial = p.msgs.iter().any(|(_, t)| *t != ReplyTamper::None);
        let p2 = p.clone();
        let out = exec::run(&p.sim, async move { client_scenario(p2).await });
        finish(out, sig, nontrivial, "C13.stall")
    }
    fn shrink(&self, plan: &Value) -> Vec<Value> {
        let Ok(p) = serde_json::from_value::<ClientPlan>(plan.clone()) else { return vec![] };
        let mut out = Vec::new();
        if p.msgs.len() > 1 {
            for i in 0..p.msgs.len() {
                let mut q = p.clone();
                q.msgs.remove(i);
                out.push(q);
            }
        }
        out.into_iter().map(|q| serde_json::to_value(q).unwrap()).collect()
    }
    fn describe(&self) -> Describe {
        Describe {
            rule: "plan = (UDP or TCP client transport with a TSIG signer, 1-3 signed UPDATE requests sent through the real client stack to the real server path over the simulated network, each reply optionally tampered in flight: TSIG RR stripped, bit flip, rcode rewritten, unsigned forgery, MAC truncated, re-signed with a key the client does not hold); non-trivial = any reply tampering; distinct by transport and tamper sequence".into(),
            real: vec!["client: UdpClientStream::with_signer, DnsMultiplexer::with_signer + TcpClientStream + DnsExchange, TSigVerifier", "server: Request::from_bytes -> Catalog::update -> SqliteZoneHandler (TSIG check, signed response)"],
            stub: vec!["SimNet (UDP datagrams / TCP pipes), framing of the TCP server side by the harness", "reply tamper layer, RFC 8945 reference checker"],
            assumptions: vec![],
        }
    }
}

fn tamper_reply(reply: &[u8], t: ReplyTamper, request: &[u8]) -> Vec<u8> {
    match t {
        ReplyTamper::None => reply.to_vec(),
        ReplyTamper::StripTsig => apply_tamper(reply, Tamper::RemoveTsig).0,
        ReplyTamper::BitFlip(sel) => {
            // keep the id intact: a reply with another id is simply not this request's reply
            let mut b = reply.to_vec();
            if b.len() > 2 {
                let bit = 16 + sel as usize % ((b.len() - 2) * 8);
                b[bit / 8] ^= 1 << (bit % 8);
            }
            b
        }
        ReplyTamper::RewriteRcode(rc) => {
            let mut b = reply.to_vec();
            if b.len() > 3 {
                let nv = (b[3] & 0xF0) | (rc & 0x0F);
                b[3] = if nv == b[3] { b[3] ^ 1 } else { nv };
            }
            b
        }
        ReplyTamper::UnsignedForgery => {
            let mut b = request[..12.min(request.len())].to_vec();
            if b.len() == 12 {
                b[2] |= 0x80; // QR
                b[3] &= 0xF0; // NOERROR
                b[6..12].copy_from_slice(&[0, 0, 0, 0, 0, 0]);
                // copy the zone/question section
                if let Ok(m) = Message::from_vec(request) {
                    let mut r = Message::response(m.metadata.id, m.metadata.op_code);
                    for q in &m.queries {
                        r.add_query(q.clone());
                    }
                    return r.to_vec().unwrap_or(b);
                }
            }
            b
        }
        ReplyTamper::TruncMac(n) => apply_tamper(reply, Tamper::TruncMac(n)).0,
        ReplyTamper::ResignWrongKey => {
            // strip the TSIG, flip the rcode to NOERROR, sign with an unrelated key
            let stripped = apply_tamper(reply, Tamper::RemoveTsig).0;
            match Message::from_vec(&stripped) {
                Ok(mut m) => {
                    m.metadata.response_code = ResponseCode::NoError;
                    let s = signer_for(SignKind::WrongSecret).unwrap();
                    let _ = m.finalize(&s, SimTime::current_time());
                    m.to_vec().unwrap_or(stripped)
                }
                Err(_) => stripped,
            }
        }
    }
}

async fn client_scenario(p: ClientPlan) {
    net::configure(net::MS, net::MS);
    let u = universe();
    let init = initial_records(&u, 100);
    let mut handler = new_handler(&u, Some(&init), AxfrPolicy::AllowAll).await;
    handler.set_tsig_signers(vec![signer_for(SignKind::Good).unwrap()]);
    let server = Rc::new(Server::new(&u, handler));
    let keys: Vec<(&str, &[u8])> = vec![(KEY_NAME, KEY_SECRET)];
    // (request bytes, delivered reply bytes) per exchange, in arrival order
    let exchanges: Rc<std::cell::RefCell<Vec<(Vec<u8>, Vec<u8>)>>> = Rc::new(std::cell::RefCell::new(Vec::new()));
    let tampers: Vec<ReplyTamper> = p.msgs.iter().map(|(_, t)| *t).collect();
    let dups: Vec<u8> = p.dup.clone();

    // UDP side of the server
    {
        let server = server.clone();
        let exchanges = exchanges.clone();
        let tampers = tampers.clone();
        let dups = dups.clone();
        net::udp_node(SERVER_ADDR, move |dg| {
            let server = server.clone();
            let exchanges = exchanges.clone();
            let tampers = tampers.clone();
            let dups = dups.clone();
            let (src, bytes) = (dg.src, dg.bytes.clone());
            exec::spawn("srv-udp", async move {
                if let Ok(Some(reply)) = server.handle::<SimTime>(bytes.clone(), Protocol::Udp).await {
                    let k = exchanges.borrow().len();
                    let t = tampers.get(k).copied().unwrap_or(ReplyTamper::None);
                    let delivered = tamper_reply(&reply, t, &bytes);
                    if delivered != reply {
                        exec::count(&format!("fault.reply.{}", format!("{t:?}").split('(').next().unwrap()));
                    }
                    exchanges.borrow_mut().push((bytes, delivered.clone()));
                    for _ in 0..dups.get(k).copied().unwrap_or(0) {
                        exec::count("fault.reply.duplicate");
                        net::udp_send(SERVER_ADDR, src, delivered.clone());
                    }
                    net::udp_send(SERVER_ADDR, src, delivered);
                }
            });
            Vec::<UdpOut>::new()
        });
    }
    // TCP side of the server
    {
        let server = server.clone();
        let exchanges = exchanges.clone();
        let tampers = tampers.clone();
        let dups = dups.clone();
        net::tcp_listen(SERVER_ADDR, move |mut tcp, _peer| {
            let server = server.clone();
            let exchanges = exchanges.clone();
            let tampers = tampers.clone();
            let dups = dups.clone();
            exec::spawn("srv-tcp", async move {
                let mut hdr = [0u8; 2];
                loop {
                    if tcp.read_exact(&mut hdr).await.is_err() {
                        break;
                    }
                    let mut body = vec![0u8; u16::from_be_bytes(hdr) as usize];
                    if tcp.read_exact(&mut body).await.is_err() {
                        break;
                    }
                    if let Ok(Some(reply)) = server.handle::<SimTime>(body.clone(), Protocol::Tcp).await {
                        let k = exchanges.borrow().len();
                        let t = tampers.get(k).copied().unwrap_or(ReplyTamper::None);
                        let delivered = tamper_reply(&reply, t, &body);
                        if delivered != reply {
                            exec::count(&format!("fault.reply.{}", format!("{t:?}").split('(').next().unwrap()));
                        }
                        exchanges.borrow_mut().push((body, delivered.clone()));
                        let mut frame = (delivered.len() as u16).to_be_bytes().to_vec();
                        frame.extend_from_slice(&delivered);
                        let one = frame.clone();
                        for _ in 0..dups.get(k).copied().unwrap_or(0) {
                            exec::count("fault.reply.duplicate");
                            frame.extend_from_slice(&one);
                        }
                        if tcp.write_all(&frame).await.is_err() {
                            break;
                        }
                    }
                }
                std::future::pending::<()>().await;
                drop(tcp);
            });
        });
    }

    let provider = SimProvider::new(CLIENT_IP);
    let signer = signer_for(SignKind::Good).unwrap();
    let exchange: DnsExchange<SimProvider> = if p.tcp {
        let (fut, handle) = TcpClientStream::new(SERVER_ADDR, None, Some(std::time::Duration::from_secs(2)), provider.clone());
        let stream = match fut.await {
            Ok(s) => s,
            Err(e) => {
                exec::violate("C13.harness", "", format!("connect: {e}"));
                return;
            }
        };
        let mux = DnsMultiplexer::new(stream, handle).with_timeout(std::time::Duration::from_secs(3)).with_signer(signer);
        let (ex, bg) = DnsExchange::from_stream(mux);
        provider.create_handle().spawn_bg(bg);
        ex
    } else {
        let stream = UdpClientStream::builder(SERVER_ADDR, provider.clone()).with_timeout(Some(std::time::Duration::from_secs(3))).with_signer(Some(signer)).with_max_retries(1).build();
        let (ex, bg) = DnsExchange::from_stream(stream);
        provider.create_handle().spawn_bg(bg);
        ex
    };

    for (i, (m, tamper)) in p.msgs.iter().enumerate() {
        let msg = build_update_message(&u, 0x6000 + i as u16, m);
        let req = DnsRequest::new(msg, DnsRequestOptions::default());
        let before = exchanges.borrow().len();
        let result = exchange.send(req).next().await;
        let ex = exchanges.borrow().get(before).cloned();
        match result {
            Some(Ok(resp)) => {
                exec::count("probe.client_ok");
                let Some((request, delivered)) = ex else {
                    exec::violate("C13.client-accepted", "no-exchange", format!("request {i}: client got a reply although the server saw no request"));
                    return;
                };
                let req_mac = match ref_verify(&request, &keys, None) {
                    RefVerdict::Valid { mac, .. } => mac,
                    v => {
                        exec::violate("C13.harness", "", format!("client's own request does not verify: {v:?}"));
                        return;
                    }
                };
                let verdict = ref_verify(&delivered, &keys, Some(&req_mac));
                if !matches!(verdict, RefVerdict::Valid { .. }) {
                    let tn = format!("{tamper:?}").split('(').next().unwrap().to_string();
                    let transport = if p.tcp { "tcp" } else { "udp" };
                    if exec::violate("C13.client-accepted", &format!("{transport}:{tn}"), format!("request {i}: the client accepted (rcode {:?}) a reply that does not verify: {verdict:?}", resp.metadata.response_code)) {
                        return;
                    }
                }
            }
            Some(Err(e)) => {
                exec::count("probe.client_err");
                if *tamper == ReplyTamper::None {
                    if exec::violate("C13.client-rejected", if p.tcp { "tcp" } else { "udp" }, format!("request {i}: untouched signed reply rejected by the client: {e}")) {
                        return;
                    }
                }
            }
            None => {}
        }
    }
}
