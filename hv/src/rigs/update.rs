//! rig_update — the real `Catalog` → `SqliteZoneHandler<SimProvider>` → `InMemoryZoneHandler`
//! → `Journal` (in-memory SQLite) stack driven through `Request::from_bytes` with TSIG-signed
//! UPDATE messages built by the real client-side signer.  Serves C12, C13 and C14.

use std::collections::{BTreeMap, BTreeSet};
use std::net::SocketAddr;
use std::sync::{Arc, Mutex};

use futures_util::stream::StreamExt;
use hickory_net::runtime::Time;
use hickory_net::xfer::{BufDnsStreamHandle, Protocol};
use hickory_proto::op::{Message, MessageType, OpCode, Query, ResponseCode};
use hickory_proto::rr::rdata::tsig::TsigAlgorithm;
use hickory_proto::rr::rdata::{A, CNAME, MX, NS, SOA, TXT};
use hickory_proto::rr::{DNSClass, LowerName, Name, RData, Record, RecordSet, RecordType, RrKey, TSigner};
use hickory_server::server::{Request, RequestHandler, ResponseHandle};
use hickory_server::store::in_memory::InMemoryZoneHandler;
use hickory_server::store::sqlite::{Journal, SqliteZoneHandler};
use hickory_server::zone_handler::{AxfrPolicy, Catalog, ZoneHandler, ZoneType};
use hsim::exec::{self, SimConfig};
use hsim::net::{SimProvider, SimTime};
use hsim::rng::mix;
use hsim::supervisor::{CheckDef, Describe, Part, Report, Tier};
use hsim::{End, Rng};
use rusqlite::Connection;
use serde::{Deserialize, Serialize};
use serde_json::Value;

use super::upd_model::{self as model, key_of, rdata_text, Key, Rec, RecSpec, TYPES};

pub const KEY_NAME: &str = "update-key.example.com.";
pub const KEY_SECRET: &[u8] = b"0123456789abcdef0123456789abcdef";

pub struct Universe {
    pub origin: Name,
    pub names: Vec<Name>,
}

pub fn universe() -> Universe {
    let n = |s: &str| Name::from_ascii(s).unwrap();
    Universe {
        origin: n("example.com."),
        names: vec![n("example.com."), n("a.example.com."), n("b.example.com."), n("c.b.example.com."), n("ns1.example.com."), n("other.org."), n("A.Example.COM.")],
    }
}

pub fn value(t: RecordType, ix: usize) -> Option<RData> {
    let n = |s: &str| Name::from_ascii(s).unwrap();
    Some(match t {
        RecordType::A => RData::A(A::new(192, 0, 2, 1 + (ix % 3) as u8)),
        RecordType::TXT => RData::TXT(TXT::new(vec![["x", "y", "zz"][ix % 3].to_string()])),
        RecordType::CNAME => RData::CNAME(CNAME([n("a.example.com."), n("target.example.net."), n("b.example.com.")][ix % 3].clone())),
        RecordType::NS => RData::NS(NS([n("ns1.example.com."), n("ns2.example.com."), n("ns3.example.net.")][ix % 3].clone())),
        RecordType::MX => RData::MX(MX::new(10 + (ix % 2) as u16, n("mail.example.com."))),
        RecordType::NULL => RData::NULL(hickory_proto::rr::rdata::NULL::with(vec![1 + (ix % 2) as u8; 3])),
        RecordType::SOA => {
            let serial = [50u32, 1000, 0x8000_0100, 5, 0xFFFF_FFFF][ix % 5];
            RData::SOA(SOA::new(n("ns1.example.com."), n(["admin.example.com.", "root.example.com."][ix % 2]), serial, 3600, 600, 86400, 60))
        }
        _ => return None,
    })
}

pub fn class_of(c: u8) -> DNSClass {
    match c {
        0 => DNSClass::IN,
        1 => DNSClass::ANY,
        2 => DNSClass::NONE,
        _ => DNSClass::CH,
    }
}

pub fn build_record(u: &Universe, s: &RecSpec) -> Record {
    let name = u.names[s.name % u.names.len()].clone();
    let t = TYPES[s.rtype % TYPES.len()];
    let mut r = match s.rdata.and_then(|ix| value(t, ix)) {
        Some(rd) => Record::from_rdata(name, s.ttl, rd),
        None => Record::update0(name, s.ttl, t),
    };
    r.dns_class = class_of(s.class);
    r
}

/// what the model sees of a record (rdata presence decided exactly as on the wire)
pub fn model_rec<'a>(r: &'a Record) -> Rec<'a> {
    let rdata = match &r.data {
        RData::Update0(_) => None,
        d => Some(d),
    };
    Rec { name: &r.name, class: r.dns_class, rtype: r.record_type(), ttl: r.ttl, rdata }
}

#[derive(Clone, Debug, Serialize, Deserialize, PartialEq)]
pub struct UpdateMsg {
    pub prereq: Vec<RecSpec>,
    pub update: Vec<RecSpec>,
}

pub fn initial_records(u: &Universe, serial: u32) -> Vec<Record> {
    let n = |s: &str| Name::from_ascii(s).unwrap();
    vec![
        Record::from_rdata(u.origin.clone(), 3600, RData::SOA(SOA::new(n("ns1.example.com."), n("admin.example.com."), serial, 3600, 600, 86400, 60))),
        Record::from_rdata(u.origin.clone(), 3600, RData::NS(NS(n("ns1.example.com.")))),
        Record::from_rdata(n("ns1.example.com."), 3600, RData::A(A::new(192, 0, 2, 53))),
        Record::from_rdata(n("a.example.com."), 300, RData::A(A::new(192, 0, 2, 1))),
    ]
}

pub fn model_from_records(u: &Universe, recs: &[Record], serial: u32) -> model::Zone {
    let mut rrsets: BTreeMap<Key, BTreeSet<String>> = BTreeMap::new();
    for r in recs {
        rrsets.entry(key_of(&r.name, r.record_type())).or_default().insert(rdata_text(&r.data));
    }
    model::Zone { origin: u.origin.to_lowercase().to_ascii(), rrsets, serial }
}

pub fn signer() -> TSigner {
    TSigner::new(KEY_SECRET.to_vec(), TsigAlgorithm::HmacSha256, Name::from_ascii(KEY_NAME).unwrap(), 300).unwrap()
}

pub fn build_update_message(u: &Universe, id: u16, m: &UpdateMsg) -> Message {
    let mut msg = Message::new(id, MessageType::Query, OpCode::Update);
    msg.add_query(Query::new(u.origin.clone(), RecordType::SOA));
    for p in &m.prereq {
        msg.add_answer(build_record(u, p));
    }
    for p in &m.update {
        msg.add_authority(build_record(u, p));
    }
    msg
}

/// the server under test
pub struct Server {
    pub catalog: Catalog,
    pub handler: Arc<SqliteZoneHandler<SimProvider>>,
    pub src: SocketAddr,
}

pub async fn new_handler(u: &Universe, records: Option<&[Record]>, axfr: AxfrPolicy) -> SqliteZoneHandler<SimProvider> {
    let in_mem: InMemoryZoneHandler<SimProvider> = match records {
        Some(recs) => {
            let mut map: BTreeMap<RrKey, RecordSet> = BTreeMap::new();
            for r in recs {
                let k = RrKey::new(LowerName::new(&r.name), r.record_type());
                map.entry(k).or_insert_with(|| RecordSet::new(r.name.clone(), r.record_type(), 0)).insert(r.clone(), 0);
            }
            InMemoryZoneHandler::new(u.origin.clone(), map, ZoneType::Primary, AxfrPolicy::AllowAll, None).expect("zone")
        }
        None => InMemoryZoneHandler::empty(u.origin.clone(), ZoneType::Primary, AxfrPolicy::AllowAll, None),
    };
    let mut h = SqliteZoneHandler::new(in_mem, axfr, true, false);
    h.set_tsig_signers(vec![signer()]);
    h
}

pub fn new_journal() -> Journal {
    let conn = Connection::open_in_memory().expect("sqlite");
    // small pages, so that an armed disk-full fault is reached within a few rows
    conn.execute_batch("PRAGMA page_size = 512").expect("page_size");
    let mut j = Journal::new(conn).expect("journal");
    j.schema_up().expect("schema");
    j
}

impl Server {
    pub fn new(u: &Universe, handler: SqliteZoneHandler<SimProvider>) -> Self {
        let handler = Arc::new(handler);
        let mut catalog = Catalog::new();
        catalog.upsert(LowerName::new(&u.origin), vec![handler.clone() as Arc<dyn ZoneHandler>]);
        Self { catalog, handler, src: "10.0.0.9:5300".parse().unwrap() }
    }

    /// push raw request bytes through the real request path; returns the response bytes (if any)
    pub async fn handle<T: Time>(&self, bytes: Vec<u8>, protocol: Protocol) -> Result<Option<Vec<u8>>, String> {
        let req = Request::from_bytes(bytes, self.src, protocol).map_err(|e| format!("request parse: {e}"))?;
        let (handle, mut rx) = BufDnsStreamHandle::new(self.src);
        let rh = ResponseHandle::new(self.src, handle, protocol);
        self.catalog.handle_request::<_, T>(&req, rh).await;
        // the response (if any) is already queued
        match futures_util::FutureExt::now_or_never(rx.next()) {
            Some(Some(m)) => Ok(Some(m.into_parts().0)),
            _ => Ok(None),
        }
    }

    /// hash of the complete zone including TTLs (used only to decide "did anything change")
    pub async fn fingerprint(&self) -> u64 {
        let recs = self.handler.records().await;
        let mut h = 0u64;
        for (k, set) in recs.iter() {
            for r in set.records_without_rrsigs() {
                if r.record_type() == RecordType::SOA {
                    // the serial is judged separately
                    h = hsim::rng::hash_bytes(mix(h), format!("{} {} {}", k.name, r.ttl, rdata_text(&r.data)).as_bytes());
                } else {
                    h = hsim::rng::hash_bytes(mix(h), format!("{} {} {} {}", k.name, k.record_type, r.ttl, r.data).as_bytes());
                }
            }
        }
        h
    }

    pub async fn dump(&self) -> (BTreeMap<Key, BTreeSet<String>>, u32, usize) {
        let recs = self.handler.records().await;
        let mut out: BTreeMap<Key, BTreeSet<String>> = BTreeMap::new();
        let mut empty_sets = 0;
        for (k, set) in recs.iter() {
            let mut any = false;
            for r in set.records_without_rrsigs() {
                any = true;
                out.entry((k.name.to_string().to_lowercase(), u16::from(k.record_type))).or_default().insert(rdata_text(&r.data));
            }
            if !any {
                empty_sets += 1;
            }
        }
        drop(recs);
        let serial = self.handler.serial().await;
        (out, serial, empty_sets)
    }
}

pub fn finish<T>(out: hsim::RunOut<T>, sig: u64, nontrivial: bool, stall_inv: &str) -> Report {
    let mut rep = Report {
        violation: out.violation.clone(),
        counters: out.counters,
        sig,
        nontrivial,
        log_hash: out.log_hash,
        ilog_hash: out.ilog_hash,
        sim_ns: out.sim_ns,
        steps: out.steps,
        trace: out.trace,
    };
    if rep.violation.is_none() && out.end != End::Completed {
        rep.violation = Some(hsim::Violation { invariant: stall_inv.into(), shape: String::new(), detail: format!("run ended {:?} after {} steps / {} ns", out.end, out.steps, out.sim_ns) });
    }
    rep
}

// ------------------------------------------------------------------------------------------
// generation of UPDATE histories

pub fn gen_spec(r: &mut Rng, section_update: bool, wild: bool) -> RecSpec {
    // names: mostly in-zone
    let name = match r.below(20) {
        0 => 5,             // out of zone
        1 => 6,             // mixed-case alias of a.example.com.
        2..=6 => 0,         // apex
        7..=11 => 1,
        12..=14 => 2,
        15..=16 => 3,
        _ => 4,
    };
    let data_types = [0usize, 1, 2, 3, 4, 5]; // A TXT CNAME NS SOA MX
    let malformed = wild && r.chance(1, 6);
    if section_update {
        match r.below(10) {
            0..=4 => RecSpec { name, class: 0, rtype: *r.pick(&data_types), ttl: *r.pick(&[300u32, 300, 60, 0]), rdata: Some(r.usize_below(5)) },
            5 => RecSpec { name, class: 1, rtype: 6, ttl: 0, rdata: None },
            6..=7 => RecSpec { name, class: 1, rtype: *r.pick(&data_types), ttl: 0, rdata: None },
            _ => RecSpec { name, class: 2, rtype: *r.pick(&data_types), ttl: 0, rdata: Some(r.usize_below(5)) },
        }
    } else {
        match r.below(10) {
            0..=1 => RecSpec { name, class: 1, rtype: 6, ttl: 0, rdata: None },
            2..=3 => RecSpec { name, class: 1, rtype: *r.pick(&data_types), ttl: 0, rdata: None },
            4..=5 => RecSpec { name, class: 2, rtype: 6, ttl: 0, rdata: None },
            6..=7 => RecSpec { name, class: 2, rtype: *r.pick(&data_types), ttl: 0, rdata: None },
            _ => RecSpec { name, class: 0, rtype: *r.pick(&data_types), ttl: 0, rdata: Some(r.usize_below(5)) },
        }
    }
    .malform(r, malformed)
}

trait Malform {
    fn malform(self, r: &mut Rng, on: bool) -> Self;
}
impl Malform for RecSpec {
    fn malform(mut self, r: &mut Rng, on: bool) -> Self {
        if !on {
            return self;
        }
        match r.below(7) {
            0 => self.ttl = 7,
            1 => self.class = 3,
            2 => self.rtype = 7, // AXFR
            3 => {
                if self.class != 0 {
                    self.rdata = Some(r.usize_below(3));
                    if self.rtype >= 6 {
                        self.rtype = 0;
                    }
                }
            }
            4 => self.rtype = 6, // ANY
            5 => {
                // TYPE NULL carrying RDATA (hickory represents "empty RDATA" as NULL in places)
                self.rtype = 8;
                self.rdata = Some(r.usize_below(2));
            }
            _ => self.name = 5,
        }
        self
    }
}

pub fn gen_history(r: &mut Rng, max_msgs: usize, wild: bool) -> Vec<UpdateMsg> {
    let n = 1 + r.usize_below(max_msgs);
    (0..n)
        .map(|_| {
            let np = if r.chance(1, 2) { 0 } else { 1 + r.usize_below(2) };
            let nu = 1 + r.usize_below(3);
            UpdateMsg { prereq: (0..np).map(|_| gen_spec(r, false, wild)).collect(), update: (0..nu).map(|_| gen_spec(r, true, wild)).collect() }
        })
        .collect()
}

// ------------------------------------------------------------------------------------------
// C12

#[derive(Serialize, Deserialize, Clone, Debug)]
struct C12Plan {
    sim: SimConfig,
    initial_serial: u32,
    msgs: Vec<UpdateMsg>,
    journal: bool,
}

pub struct C12Part;

fn history_sig(msgs: &[UpdateMsg]) -> (u64, bool) {
    // distinct by the multiset of (section, class, type-kind, name-kind) forms and length
    let mut h = msgs.len() as u64;
    for m in msgs {
        for (sec, list) in [(0u64, &m.prereq), (1, &m.update)] {
            for s in list {
                let nk = match s.name {
                    0 => 0u64,
                    5 => 2,
                    _ => 1,
                };
                h = mix(h ^ (sec << 40 | (s.class as u64) << 32 | (s.rtype as u64) << 24 | nk << 16 | (s.rdata.is_some() as u64) << 8 | (s.ttl != 0) as u64));
            }
        }
        h = mix(h ^ 0xabcd);
    }
    (h, msgs.iter().any(|m| !m.update.is_empty()))
}

impl Part for C12Part {
    fn name(&self) -> &'static str {
        "rfc2136"
    }
    fn runs(&self, tier: Tier) -> u64 {
        match tier {
            Tier::Quick => 24_000,
            Tier::Thorough => 500_000,
        }
    }
    fn block(&self, _t: Tier) -> u64 {
        64
    }
    fn gen(&self, seed: u64, _tier: Tier) -> Value {
        let mut r = Rng::new(seed);
        let sim = SimConfig::from_seed(seed);
        let wild = r.chance(1, 2);
        let msgs = gen_history(&mut r, 6, wild);
        let initial_serial = *r.pick(&[100u32, 100, 0xFFFF_FFFE, 0x7FFF_FFFF, 999]);
        serde_json::to_value(C12Plan { sim, initial_serial, msgs, journal: r.bool() }).unwrap()
    }
    fn run(&self, plan: &Value, trace: bool) -> Report {
        let mut p: C12Plan = serde_json::from_value(plan.clone()).expect("plan");
        p.sim.trace = trace;
        let (sig, nontrivial) = history_sig(&p.msgs);
        let p2 = p.clone();
        let out = exec::run(&p.sim, async move { c12_scenario(p2).await });
        finish(out, sig, nontrivial, "C12.stall")
    }
    fn shrink(&self, plan: &Value) -> Vec<Value> {
        let Ok(p) = serde_json::from_value::<C12Plan>(plan.clone()) else { return vec![] };
        shrink_history(&p.msgs)
            .into_iter()
            .map(|m| {
                let mut q = p.clone();
                q.msgs = m;
                serde_json::to_value(q).unwrap()
            })
            .chain(
                [p.initial_serial != 100, p.journal]
                    .iter()
                    .enumerate()
                    .filter(|(_, b)| **b)
                    .map(|(i, _)| {
                        let mut q = p.clone();
                        if i == 0 {
                            q.initial_serial = 100;
                        } else {
                            q.journal = false;
                        }
                        serde_json::to_value(q).unwrap()
                    }),
            )
            .collect()
    }
    fn describe(&self) -> Describe {
        Describe {
            rule: "plan = history of 1-6 TSIG-signed UPDATE messages, each 0-2 prerequisite RRs and 1-3 update RRs drawn from every row of RFC 2136 tables 3.2.4 / 3.4.2.6 plus malformed rows (ttl!=0, rdata on ANY/NONE, class CH, type AXFR/ANY, out-of-zone owner), over 6 owner names (apex, 3 hosts, an ENT-creating name, mixed-case alias), types A/TXT/CNAME/NS/SOA/MX, 3-5 rdata values, initial serial incl. wrap-around values; non-trivial = at least one update RR; distinct by the sequence of (section, class, type, name-kind, rdata presence, ttl!=0) forms".into(),
            real: vec!["Request::from_bytes / MessageRequest parser", "Catalog::handle_request -> Catalog::update", "SqliteZoneHandler::{authorize_update, verify_prerequisites, pre_scan, update_records}", "InMemoryZoneHandler / RecordSet::{insert,remove}", "TSigner (client side signing, server side verification)", "Journal on in-memory SQLite (half of the runs)"],
            stub: vec!["transport (bytes handed over in-process)", "RFC 2136 reference model (oracle)"],
            assumptions: vec!["TTLs are excluded from the content comparison (RFC 2136 leaves RRset TTL handling on add to RFC 2181)", "requests of a history are applied one after another (no racing UPDATEs)"],
        }
    }
}

pub fn shrink_history(msgs: &[UpdateMsg]) -> Vec<Vec<UpdateMsg>> {
    let mut out = Vec::new();
    for i in 0..msgs.len() {
        if msgs.len() > 1 {
            let mut m = msgs.to_vec();
            m.remove(i);
            out.push(m);
        }
    }
    for i in 0..msgs.len() {
        for j in 0..msgs[i].prereq.len() {
            let mut m = msgs.to_vec();
            m[i].prereq.remove(j);
            out.push(m);
        }
        if msgs[i].update.len() > 1 {
            for j in 0..msgs[i].update.len() {
                let mut m = msgs.to_vec();
                m[i].update.remove(j);
                out.push(m);
            }
        }
    }
    out
}

fn rc_name(rc: ResponseCode) -> String {
    format!("{rc:?}")
}

pub fn diff_zone(a: &BTreeMap<Key, BTreeSet<String>>, b: &BTreeMap<Key, BTreeSet<String>>) -> String {
    let mut s = Vec::new();
    for (k, v) in a {
        let o = b.get(k).cloned().unwrap_or_default();
        for x in v.difference(&o) {
            s.push(format!("only-real {} {}", k.0, x));
        }
    }
    for (k, v) in b {
        let o = a.get(k).cloned().unwrap_or_default();
        for x in v.difference(&o) {
            s.push(format!("only-model {} {}", k.0, x));
        }
    }
    s.join("; ")
}

/// classify a content difference into a stable shape
fn content_shape(u: &Universe, real: &BTreeMap<Key, BTreeSet<String>>, modelz: &BTreeMap<Key, BTreeSet<String>>) -> String {
    let apex = u.origin.to_lowercase().to_ascii();
    let soa = u16::from(RecordType::SOA);
    let ns = u16::from(RecordType::NS);
    let mut shapes = BTreeSet::new();
    let keys: BTreeSet<&Key> = real.keys().chain(modelz.keys()).collect();
    for k in keys {
        let r = real.get(k);
        let m = modelz.get(k);
        if r == m {
            continue;
        }
        let tname = RecordType::from(k.1).to_string();
        let where_ = if k.0 == apex { "apex" } else { "name" };
        let kind = match (r, m) {
            (None, Some(_)) => "missing",
            (Some(_), None) => "extra",
            _ => "differs",
        };
        let _ = (soa, ns);
        shapes.insert(format!("{kind}-{tname}@{where_}"));
    }
    shapes.into_iter().collect::<Vec<_>>().join("+")
}

async fn c12_scenario(p: C12Plan) {
    let u = universe();
    let init = initial_records(&u, p.initial_serial);
    let mut handler = new_handler(&u, Some(&init), AxfrPolicy::AllowAll).await;
    if p.journal {
        handler.set_journal(new_journal()).await;
        if let Err(e) = handler.persist_to_journal().await {
            exec::violate("C12.harness", "", format!("persist: {e}"));
            return;
        }
    }
    let server = Server::new(&u, handler);
    let mut modelz = model_from_records(&u, &init, p.initial_serial);
    let signer = signer();
    for (i, m) in p.msgs.iter().enumerate() {
        let mut msg = build_update_message(&u, 0x1000 + i as u16, m);
        if let Err(e) = msg.finalize(&signer, SimTime::current_time()) {
            exec::violate("C12.harness", "", format!("sign: {e}"));
            return;
        }
        let Ok(bytes) = msg.to_vec() else {
            exec::violate("C12.harness", "", "encode".into());
            return;
        };
        // the model reads the records back from the *wire* image, so that what it judges is
        // exactly what was transmitted
        let Ok(wire) = Message::from_vec(&bytes) else {
            exec::violate("C12.harness", "", "own message does not decode".into());
            return;
        };
        let pre: Vec<Rec<'_>> = wire.answers.iter().map(model_rec).collect();
        let upd: Vec<Rec<'_>> = wire.authorities.iter().map(model_rec).collect();
        let before = modelz.clone();
        let mut any_step = false;
        let pre_fails = modelz.prerequisites(&pre);
        let scan_fails = if pre_fails.is_empty() { modelz.prescan(&upd) } else { Vec::new() };
        let (expected, stage): (Vec<ResponseCode>, &str) = if !pre_fails.is_empty() {
            (pre_fails, "prereq")
        } else if !scan_fails.is_empty() {
            (scan_fails, "prescan")
        } else {
            any_step = modelz.update(&upd);
            (vec![ResponseCode::NoError], "update")
        };
        let changed = modelz.rrsets != before.rrsets || modelz.serial != before.serial;
        let (real_before, serial_before, empty_before) = server.dump().await;
        let fp_before = server.fingerprint().await;
        let resp = match server.handle::<SimTime>(bytes, Protocol::Tcp).await {
            Ok(Some(b)) => b,
            Ok(None) => {
                exec::violate("C12.response", "none", format!("message {i}: no response"));
                return;
            }
            Err(e) => {
                exec::violate("C12.harness", "", e);
                return;
            }
        };
        let Ok(rmsg) = Message::from_vec(&resp) else {
            exec::violate("C12.response", "undecodable", format!("message {i}: response does not decode"));
            return;
        };
        let got_rc = rmsg.metadata.response_code;
        let (real_after, serial_after, empty_sets) = server.dump().await;
        let fp_after = server.fingerprint().await;
        if empty_sets > 0 {
            exec::count("probe.empty_rrset_entries");
        }
        exec::count(&format!("probe.rcode.{}", rc_name(got_rc)));
        exec::count(&format!("probe.stage.{stage}"));
        let mut resync = false;

        // (1) a refused message changes nothing
        if got_rc != ResponseCode::NoError && (real_after != real_before || serial_after != serial_before) {
            if exec::violate("C12.atomic", &format!("changed-on-{}", rc_name(got_rc)), format!("message {i} answered {got_rc:?} but the zone changed: {}", diff_zone(&real_after, &real_before))) {
                return;
            }
            resync = true;
        }
        // (2) accepted / rejected as RFC 2136 prescribes.  When several prerequisites (or update
        // RRs) fail, any of their codes is accepted; the code is only pinned when all failing
        // items agree on it.
        let mut exp_set: Vec<ResponseCode> = expected.clone();
        exp_set.sort_by_key(|c| u16::from(*c));
        exp_set.dedup();
        let ok = if stage == "update" { got_rc == ResponseCode::NoError } else { exp_set.contains(&got_rc) };
        if !ok {
            let exp_txt = exp_set.iter().map(|c| rc_name(*c)).collect::<Vec<_>>().join("|");
            // Prerequisite verdicts that differ because hickory evaluates prerequisites with
            // query-style lookups get their own invariant id and a cause-specific shape.
            let causes: BTreeSet<&str> = pre.iter().filter_map(|r| before.lookup_cause(r)).collect();
            let prereq_code = matches!(got_rc, ResponseCode::NXDomain | ResponseCode::NXRRSet | ResponseCode::YXDomain | ResponseCode::YXRRSet);
            // hickory matches `RData::NULL(..)` where it means "empty RDATA": a TYPE NULL record
            // that does carry RDATA in a CLASS ANY / NONE position is accepted instead of FORMERR
            let null_rdata_meta = pre.iter().chain(upd.iter()).any(|r| matches!(r.class, DNSClass::ANY | DNSClass::NONE) && r.rtype == RecordType::NULL && r.rdata.is_some());
            // an RRset emptied by an earlier RR deletion stays in the zone as an empty RecordSet
            // (hickory keeps it; a repository test relies on that): a query-style lookup of
            // the name then reports "no records" although other RRsets exist there
            let emptied = empty_before > 0 && !pre.is_empty();
            let fatal = if emptied && (stage == "prereq" || prereq_code) && causes.is_empty() {
                exec::violate("C12.prereq", "emptied-rrset-at-owner", format!("message {i} ({m:?}): RFC 2136 {stage} gives {exp_txt}, server answered {got_rc:?}"))
            } else if null_rdata_meta && exp_set.contains(&ResponseCode::FormErr) {
                exec::violate("C12.rcode", "type-null-rdata-in-meta-class-accepted", format!("message {i} ({m:?}): RFC 2136 {stage} gives {exp_txt}, server answered {got_rc:?}"))
            } else if !causes.is_empty() && (stage == "prereq" || prereq_code) {
                // one cause per report, by fixed priority, so that the shape is stable
                let cause = ["at-or-below-delegation", "cname-at-owner", "value-prereq-subset-of-rrset"].into_iter().find(|c| causes.contains(c)).unwrap_or("other").to_string();
                exec::violate("C12.prereq", &cause, format!("message {i} ({m:?}): RFC 2136 {stage} gives {exp_txt}, server answered {got_rc:?}"))
            } else {
                exec::violate("C12.rcode", &format!("{stage}:{exp_txt}->{}", rc_name(got_rc)), format!("message {i} ({m:?}): RFC 2136 {stage} gives {exp_txt}, server answered {got_rc:?}"))
            };
            if fatal {
                return;
            }
            resync = true;
        }
        // (3) content
        if !resync && real_after != modelz.rrsets {
            let shape = content_shape(&u, &real_after, &modelz.rrsets);
            if exec::violate("C12.content", &shape, format!("message {i} ({m:?}): {}", diff_zone(&real_after, &modelz.rrsets))) {
                return;
            }
            resync = true;
        }
        // (4) serial advances iff content changed
        if !resync {
            let real_changed = real_after != real_before || fp_before != fp_after;
            let advanced = model::serial_lt(serial_before, serial_after);
            if modelz.serial != before.serial {
                // the message itself carried an accepted SOA RR: the new serial is the one it
                // set, optionally auto-incremented once (RFC 2136 3.6)
                if serial_after != modelz.serial && serial_after != modelz.serial.wrapping_add(1) {
                    if exec::violate("C12.serial", "soa-update-mismatch", format!("message {i} ({m:?}): serial {serial_before} -> {serial_after}, the accepted SOA update RR sets {}", modelz.serial)) {
                        return;
                    }
                }
            } else if serial_after != serial_before && !advanced {
                if exec::violate("C12.serial", "backwards", format!("message {i} ({m:?}): serial {serial_before} -> {serial_after}")) {
                    return;
                }
            } else if (real_changed || changed) && !advanced {
                if exec::violate("C12.serial", "not-advanced", format!("message {i} ({m:?}): content changed, serial stayed {serial_before}")) {
                    return;
                }
            } else if !real_changed && !changed && !any_step && advanced {
                let shape = if empty_before > 0 { "advanced-without-change:emptied-rrset-removed" } else { "advanced-without-change" };
                if exec::violate("C12.serial", shape, format!("message {i} ({m:?}): nothing changed, serial {serial_before} -> {serial_after}")) {
                    return;
                }
            }
        }
        // (5) well-formedness
        let apex = u.origin.to_lowercase().to_ascii();
        let soa_count: usize = real_after.iter().filter(|(k, _)| k.1 == u16::from(RecordType::SOA)).map(|(_, v)| v.len()).sum();
        let apex_soa = real_after.get(&(apex.clone(), u16::from(RecordType::SOA))).map(|s| s.len()).unwrap_or(0);
        if soa_count != 1 || apex_soa != 1 {
            if exec::violate("C12.wellformed", &format!("soa-count-{}-apex-{}", soa_count.min(2), apex_soa.min(2)), format!("message {i} ({m:?}): zone has {soa_count} SOA records, {apex_soa} at the apex")) {
                return;
            }
        }
        if real_after.get(&(apex.clone(), u16::from(RecordType::NS))).map(|s| s.len()).unwrap_or(0) == 0 {
            if exec::violate("C12.wellformed", "no-apex-ns", format!("message {i} ({m:?}): no NS left at the apex")) {
                return;
            }
        }
        let cname_t = u16::from(RecordType::CNAME);
        for (k, _) in real_after.iter().filter(|(k, _)| k.1 == cname_t) {
            if real_after.keys().any(|o| o.0 == k.0 && o.1 != cname_t) {
                if exec::violate("C12.wellformed", "cname-with-other-data", format!("message {i}: {} holds a CNAME and other data", k.0)) {
                    return;
                }
            }
        }
        if resync {
            // continue the history from the server's actual state
            modelz.rrsets = real_after;
            modelz.serial = serial_after;
        } else {
            modelz.serial = serial_after;
        }
    }
}


// ------------------------------------------------------------------------------------------
// C12, concurrent UPDATEs: whatever the interleaving of the tasks that handle them, the
// outcome has to be the outcome of *some* order of the same messages handled one at a time.
// The reference is the real code itself run sequentially (a fresh server per order), so no
// model deviation can enter.

#[derive(Serialize, Deserialize, Clone, Debug)]
struct ConcPlan {
    sim: SimConfig,
    initial_serial: u32,
    /// handled one after another first
    prefix: Vec<UpdateMsg>,
    /// then these, as concurrent tasks
    concurrent: Vec<UpdateMsg>,
    journal: bool,
}

pub struct ConcurrentPart;

type Outcome = (Vec<u16>, BTreeMap<Key, BTreeSet<String>>);

async fn conc_server(u: &Universe, p: &ConcPlan) -> Option<Server> {
    let init = initial_records(u, p.initial_serial);
    let mut handler = new_handler(u, Some(&init), AxfrPolicy::AllowAll).await;
    if p.journal {
        handler.set_journal(new_journal()).await;
        if handler.persist_to_journal().await.is_err() {
            return None;
        }
    }
    Some(Server::new(u, handler))
}

fn conc_bytes(u: &Universe, id: u16, m: &UpdateMsg) -> Option<Vec<u8>> {
    let mut msg = build_update_message(u, id, m);
    msg.finalize(&signer(), SimTime::current_time()).ok()?;
    msg.to_vec().ok()
}

async fn conc_apply(server: &Server, bytes: Vec<u8>) -> Option<u16> {
    match server.handle::<SimTime>(bytes, Protocol::Tcp).await {
        Ok(Some(b)) => Message::from_vec(&b).ok().map(|m| u16::from(m.metadata.response_code)),
        _ => None,
    }
}

async fn conc_scenario(p: ConcPlan) {
    let u = universe();
    let k = p.concurrent.len();
    // ---- the concurrent execution ---------------------------------------------------------------
    let Some(server) = conc_server(&u, &p).await else {
        exec::violate("C12.harness", "", "server".into());
        return;
    };
    let server = std::rc::Rc::new(server);
    for (i, m) in p.prefix.iter().enumerate() {
        let Some(b) = conc_bytes(&u, 0x3000 + i as u16, m) else { return };
        let _ = conc_apply(&server, b).await;
    }
    let mut joins = Vec::new();
    for (i, m) in p.concurrent.iter().enumerate() {
        let Some(b) = conc_bytes(&u, 0x3100 + i as u16, m) else { return };
        let server = server.clone();
        joins.push(exec::spawn(&format!("update{i}"), async move { conc_apply(&server, b).await }));
    }
    let mut rcodes: Vec<u16> = Vec::new();
    for j in joins {
        match exec::timeout(std::time::Duration::from_secs(600), j).await {
            Ok(Some(rc)) => rcodes.push(rc),
            Ok(None) => {
                exec::violate("C12.response", "none-concurrent", "a concurrent UPDATE got no decodable response".into());
                return;
            }
            Err(()) => {
                exec::violate("C12.stall", "concurrent", "a concurrent UPDATE was still pending after 10 simulated minutes".into());
                return;
            }
        }
    }
    let (zone, serial, _) = server.dump().await;
    let got: Outcome = (rcodes.clone(), zone.clone());
    // ---- every sequential order of the same messages, on the real code ---------------------------
    let mut perms: Vec<Vec<usize>> = Vec::new();
    fn permute(cur: &mut Vec<usize>, left: &mut Vec<usize>, out: &mut Vec<Vec<usize>>) {
        if left.is_empty() {
            out.push(cur.clone());
            return;
        }
        for i in 0..left.len() {
            let x = left.remove(i);
            cur.push(x);
            permute(cur, left, out);
            cur.pop();
            left.insert(i, x);
        }
    }
    permute(&mut Vec::new(), &mut (0..k).collect(), &mut perms);
    let mut explained = false;
    let mut content_explained = false;
    let mut orders: Vec<String> = Vec::new();
    for perm in &perms {
        let Some(s2) = conc_server(&u, &p).await else { return };
        for (i, m) in p.prefix.iter().enumerate() {
            let Some(b) = conc_bytes(&u, 0x3000 + i as u16, m) else { return };
            let _ = conc_apply(&s2, b).await;
        }
        let mut rc2 = vec![0u16; k];
        for &i in perm {
            let Some(b) = conc_bytes(&u, 0x3100 + i as u16, &p.concurrent[i]) else { return };
            rc2[i] = conc_apply(&s2, b).await.unwrap_or(u16::MAX);
        }
        let (z2, serial2, _) = s2.dump().await;
        orders.push(format!("order {perm:?}: rcodes {rc2:?} serial {serial2}"));
        if z2 == got.1 {
            content_explained = true;
            if rc2 == got.0 {
                explained = true;
                // the serial: same number of effective changes
                if serial2 != serial {
                    exec::count("probe.concurrent_serial_differs_from_sequential_twin");
                }
                break;
            }
        }
    }
    exec::count(if explained { "probe.concurrent_outcome_serializable" } else { "probe.concurrent_outcome_unexplained" });
    if !explained {
        let shape = if content_explained { "rcodes-fit-no-order" } else { "zone-fits-no-order" };
        exec::violate("C12.not-serializable", shape, format!("{k} concurrent UPDATEs {:?} answered {rcodes:?} and left serial {serial}; no sequential order of the same messages on the same code gives this outcome: {}; differences from the last order: zone has {} entries", p.concurrent, orders.join("; "), zone.len()));
    }
}

impl Part for ConcurrentPart {
    fn name(&self) -> &'static str {
        "concurrent"
    }
    fn runs(&self, tier: Tier) -> u64 {
        match tier {
            Tier::Quick => 4_000,
            Tier::Thorough => 100_000,
        }
    }
    fn block(&self, _t: Tier) -> u64 {
        32
    }
    fn gen(&self, seed: u64, _tier: Tier) -> Value {
        let mut r = Rng::new(seed);
        let sim = SimConfig::from_seed(seed);
        let prefix = if r.chance(1, 2) { gen_history(&mut r, 2, false) } else { vec![] };
        let k = 2 + r.usize_below(2);
        let mut concurrent = Vec::new();
        while concurrent.len() < k {
            concurrent.extend(gen_history(&mut r, 1, false));
        }
        concurrent.truncate(k);
        // make the race meaningful: often let two messages share their first prerequisite / update name
        if r.chance(2, 3) && concurrent.len() >= 2 {
            let name = concurrent[0].update.first().map(|s| s.name).unwrap_or(1);
            for m in concurrent.iter_mut().skip(1) {
                if let Some(s) = m.update.first_mut() {
                    s.name = name;
                }
                if let Some(s) = m.prereq.first_mut() {
                    s.name = name;
                }
            }
        }
        serde_json::to_value(ConcPlan { sim, initial_serial: *r.pick(&[100u32, 100, u32::MAX - 1, 0x7fff_ffff]), prefix, concurrent, journal: r.chance(1, 3) }).unwrap()
    }
    fn run(&self, plan: &Value, trace: bool) -> Report {
        let mut p: ConcPlan = serde_json::from_value(plan.clone()).expect("plan");
        p.sim.trace = trace;
        let (h1, _) = history_sig(&p.prefix);
        let (h2, nt) = history_sig(&p.concurrent);
        let sig = mix(h1 ^ mix(h2) ^ (p.journal as u64) << 60);
        let p2 = p.clone();
        let out = exec::run(&p.sim, async move { conc_scenario(p2).await });
        finish(out, sig, nt, "C12.stall")
    }
    fn shrink(&self, plan: &Value) -> Vec<Value> {
        let Ok(p) = serde_json::from_value::<ConcPlan>(plan.clone()) else { return vec![] };
        let mut out = Vec::new();
        for i in 0..p.prefix.len() {
            let mut q = p.clone();
            q.prefix.remove(i);
            out.push(q);
        }
        if p.concurrent.len() > 2 {
            for i in 0..p.concurrent.len() {
                let mut q = p.clone();
                q.concurrent.remove(i);
                out.push(q);
            }
        }
        for i in 0..p.concurrent.len() {
            for j in 0..p.concurrent[i].prereq.len() {
                let mut q = p.clone();
                q.concurrent[i].prereq.remove(j);
                out.push(q);
            }
            if p.concurrent[i].update.len() > 1 {
                for j in 0..p.concurrent[i].update.len() {
                    let mut q = p.clone();
                    q.concurrent[i].update.remove(j);
                    out.push(q);
                }
            }
        }
        if p.journal {
            let mut q = p.clone();
            q.journal = false;
            out.push(q);
        }
        if p.sim.policy != hsim::SchedPolicy::Fifo {
            let mut q = p.clone();
            q.sim.policy = hsim::SchedPolicy::Fifo;
            out.push(q);
        }
        out.into_iter().map(|q| serde_json::to_value(q).unwrap()).collect()
    }
    fn describe(&self) -> Describe {
        Describe {
            rule: "plan = (0-2 UPDATEs handled one after another, then 2-3 UPDATEs handled as concurrent tasks of the simulator — the guarded scheduling points between authorisation, prerequisite check, prescan and apply let the seeded scheduler interleave them as a multi-thread runtime could — two of them usually about the same name; with/without journal); non-trivial = at least one update RR; distinct by the forms in the messages".into(),
            real: vec!["Catalog::handle_request / update", "SqliteZoneHandler::{update, authorize_update, verify_prerequisites, pre_scan, update_records}", "InMemoryZoneHandler", "Journal (in-memory SQLite)"],
            stub: vec!["no network: raw signed request bytes are handed to the request path", "the guarded yield hook stands in for pre-emption by another worker thread"],
            assumptions: vec!["reference = the same code run sequentially in every order (serializability), not the RFC model"],
        }
    }
}

pub fn def_c12() -> CheckDef {
    CheckDef { id: "C12", level: "exploration", parts: vec![Box::new(C12Part), Box::new(ConcurrentPart)] }
}

#[allow(dead_code)]
fn _unused(_: Mutex<()>) {}

// ==========================================================================================
// C14 — journal-backed zones survive a stop at any point

#[derive(Serialize, Deserialize, Clone, Debug)]
struct C14Plan {
    sim: SimConfig,
    initial_serial: u32,
    msgs: Vec<UpdateMsg>,
    /// history issued after recovery (on the recovered server and on a never-crashed twin)
    post: Vec<UpdateMsg>,
    /// which crash boundary (index into the sorted list, modulo its length) gets the post phase
    post_pick: u64,
    /// inject "disk full" before this message index (None = never)
    disk_full_before: Option<usize>,
    /// how many more pages the journal may grow once the disk-full fault is armed
    disk_full_slack: u32,
}

pub struct C14Part;

#[derive(Default)]
struct Hooked {
    /// committed rows
    rows: u64,
    /// rows inserted since the last commit
    pending: u64,
    /// row count at every commit
    boundaries: Vec<u64>,
}

fn install_hooks(j: &Journal, st: Arc<Mutex<Hooked>>) {
    let conn = j.conn();
    let s1 = st.clone();
    conn.update_hook(Some(move |_a: rusqlite::hooks::Action, _db: &str, table: &str, _row: i64| {
        if table == "records" {
            s1.lock().unwrap().pending += 1;
        }
    }))
    .expect("update_hook");
    let s2 = st.clone();
    conn.commit_hook(Some(move || {
        let mut g = s2.lock().unwrap();
        g.rows += g.pending;
        g.pending = 0;
        let r = g.rows;
        g.boundaries.push(r);
        false
    }))
    .expect("commit_hook");
    let s3 = st;
    conn.rollback_hook(Some(move || {
        s3.lock().unwrap().pending = 0;
    }))
    .expect("rollback_hook");
}

type Row = (i64, i64, String, Vec<u8>);

fn read_rows(j: &Journal) -> Vec<Row> {
    let conn = j.conn();
    let mut stmt = conn.prepare("SELECT client_id, soa_serial, timestamp, record FROM records ORDER BY _rowid_").expect("prepare");
    let rows = stmt.query_map([], |r| Ok((r.get::<_, i64>(0)?, r.get::<_, i64>(1)?, r.get::<_, String>(2)?, r.get::<_, Vec<u8>>(3)?))).expect("query");
    rows.map(|r| r.expect("row")).collect()
}

fn journal_from_rows(rows: &[Row]) -> Journal {
    let j = new_journal();
    {
        let conn = j.conn();
        for (c, s, t, r) in rows {
            conn.execute("INSERT INTO records (client_id, soa_serial, timestamp, record) VALUES (?1, ?2, ?3, ?4)", rusqlite::params![c, s, t, r]).expect("insert");
        }
    }
    j
}

type ZoneState = (BTreeMap<Key, BTreeSet<String>>, u32);

struct Trace {
    /// state after the dump, then after every message
    states: Vec<ZoneState>,
    rows_before: Vec<u64>,
    rows_after: Vec<u64>,
    rcodes: Vec<ResponseCode>,
}

async fn send_update(server: &Server, u: &Universe, id: u16, m: &UpdateMsg) -> Result<ResponseCode, String> {
    let mut msg = build_update_message(u, id, m);
    msg.finalize(&signer(), SimTime::current_time()).map_err(|e| format!("sign: {e}"))?;
    let bytes = msg.to_vec().map_err(|e| format!("encode: {e}"))?;
    match server.handle::<SimTime>(bytes, Protocol::Tcp).await? {
        Some(b) => Ok(Message::from_vec(&b).map_err(|e| format!("response decode: {e}"))?.metadata.response_code),
        None => Err("no response".into()),
    }
}

async fn run_history(server: &Server, u: &Universe, msgs: &[UpdateMsg], hooked: &Arc<Mutex<Hooked>>, id_base: u16, disk_full: Option<(usize, u32)>) -> Result<Trace, String> {
    let (z, s, _) = server.dump().await;
    let mut t = Trace { states: vec![(z, s)], rows_before: vec![], rows_after: vec![], rcodes: vec![] };
    for (i, m) in msgs.iter().enumerate() {
        if let Some((at, slack)) = disk_full {
            if at == i {
                let guard = server.handler.journal().await;
                if let Some(j) = guard.as_ref() {
                    let conn = j.conn();
                    let pages: i64 = conn.query_row("PRAGMA page_count", [], |r| r.get(0)).unwrap_or(0);
                    let _: i64 = conn.query_row(&format!("PRAGMA max_page_count = {}", pages + slack as i64), [], |r| r.get(0)).unwrap_or(0);
                    exec::count("fault.disk_full_armed");
                }
            }
        }
        t.rows_before.push(hooked.lock().unwrap().rows);
        let rc = send_update(server, u, id_base + i as u16, m).await?;
        t.rows_after.push(hooked.lock().unwrap().rows);
        t.rcodes.push(rc);
        if rc == ResponseCode::ServFail {
            exec::count("probe.servfail_answer");
        }
        let (z, s, _) = server.dump().await;
        t.states.push((z, s));
    }
    Ok(t)
}

impl Part for C14Part {
    fn name(&self) -> &'static str {
        "crash"
    }
    fn runs(&self, tier: Tier) -> u64 {
        match tier {
            Tier::Quick => 6_000,
            Tier::Thorough => 300_000,
        }
    }
    fn block(&self, _t: Tier) -> u64 {
        32
    }
    fn gen(&self, seed: u64, _tier: Tier) -> Value {
        let mut r = Rng::new(seed);
        let sim = SimConfig::from_seed(seed);
        let strip = |mut h: Vec<UpdateMsg>| {
            // prerequisites are not what C14 is about (and their evaluation has known
            // deviations recorded under C12): histories here carry none
            for m in h.iter_mut() {
                m.prereq.clear();
            }
            h
        };
        let wild = r.chance(1, 4);
        let msgs = strip(gen_history(&mut r, 5, wild));
        let post = if r.chance(2, 3) { strip(gen_history(&mut r, 2, false)) } else { vec![] };
        let disk_full_before = if r.chance(1, 5) { Some(r.usize_below(msgs.len())) } else { None };
        serde_json::to_value(C14Plan {
            sim,
            initial_serial: *r.pick(&[100u32, 100, 0xFFFF_FFFE, 0x7FFF_FFFF]),
            msgs,
            post,
            post_pick: r.next_u64() % 1000,
            disk_full_before,
            disk_full_slack: r.below(2) as u32,
        })
        .unwrap()
    }
    fn run(&self, plan: &Value, trace: bool) -> Report {
        let mut p: C14Plan = serde_json::from_value(plan.clone()).expect("plan");
        p.sim.trace = trace;
        let (mut sig, _) = history_sig(&p.msgs);
        sig = mix(sig ^ (p.disk_full_before.is_some() as u64) << 60 ^ (p.post.len() as u64) << 56);
        let nontrivial = p.msgs.iter().any(|m| m.update.len() >= 1);
        let p2 = p.clone();
        let out = exec::run(&p.sim, async move { c14_scenario(p2).await });
        finish(out, sig, nontrivial, "C14.stall")
    }
    fn shrink(&self, plan: &Value) -> Vec<Value> {
        let Ok(p) = serde_json::from_value::<C14Plan>(plan.clone()) else { return vec![] };
        let mut out = Vec::new();
        for m in shrink_history(&p.msgs) {
            let mut q = p.clone();
            q.msgs = m;
            if let Some(d) = q.disk_full_before {
                q.disk_full_before = Some(d.min(q.msgs.len().saturating_sub(1)));
            }
            out.push(q);
        }
        if !p.post.is_empty() {
            let mut q = p.clone();
            q.post.clear();
            out.push(q);
            for m in shrink_history(&p.post) {
                let mut q = p.clone();
                q.post = m;
                out.push(q);
            }
        }
        if p.disk_full_before.is_some() {
            let mut q = p.clone();
            q.disk_full_before = None;
            out.push(q);
        }
        if p.initial_serial != 100 {
            let mut q = p.clone();
            q.initial_serial = 100;
            out.push(q);
        }
        out.into_iter().map(|q| serde_json::to_value(q).unwrap()).collect()
    }
    fn describe(&self) -> Describe {
        Describe {
            rule: "plan = history of 1-5 TSIG-signed UPDATE messages (forms as in C12, no prerequisites) on a journal-backed zone, the initial persist_to_journal dump included; EVERY commit boundary of the journal (SQLite commit_hook) is a crash point: a new journal holding exactly the rows committed up to it is recovered with the real recover_with_journal and compared with the server's own pre-crash states; one boundary per run additionally gets a post-recovery history compared against a never-crashed twin; 1 run in 5 arms a disk-full fault (PRAGMA max_page_count) before a chosen message; non-trivial = at least one update RR; distinct by history forms x disk-full x post length".into(),
            real: vec!["Catalog::update -> SqliteZoneHandler::update/update_records", "Journal::{insert_record(s), iter, select_record, schema_up} on in-memory SQLite", "SqliteZoneHandler::{persist_to_journal, recover_with_journal}", "InMemoryZoneHandler / RecordSet", "TSIG signing and verification"],
            stub: vec!["crash = copying the committed row prefix into a fresh in-memory journal (the storage seam is SQLite's commit boundary)", "transport"],
            assumptions: vec!["an SQLite commit is atomic and durable; nothing between two commits is durable", "try_from_config's 'journal file exists => recover from it' decision is emulated (the rig calls recover_with_journal on the cut journal)"],
        }
    }
}

/// set of message counts j such that "state after j whole messages" is a legitimate outcome of
/// a stop at row boundary `b`
fn allowed_states(t: &Trace, b: u64) -> (usize, usize) {
    let n = t.rcodes.len();
    // every message whose last row is durable may have been acknowledged
    let mut lo = 0;
    for i in 0..n {
        if t.rows_after[i] <= b {
            lo = i + 1;
        } else {
            break;
        }
    }
    let mut hi = lo;
    for i in lo..n {
        if t.rows_before[i] < b || t.rows_after[i] == t.rows_before[i] && t.rows_before[i] <= b {
            hi = i + 1;
        } else {
            break;
        }
    }
    (lo, hi)
}

async fn recover(u: &Universe, rows: &[Row]) -> Result<(SqliteZoneHandler<SimProvider>, Journal), String> {
    let j = journal_from_rows(rows);
    let mut h = new_handler(u, None, AxfrPolicy::AllowAll).await;
    h.recover_with_journal(&j).await.map_err(|e| e.to_string())?;
    Ok((h, j))
}

async fn c14_scenario(p: C14Plan) {
    let u = universe();
    let init = initial_records(&u, p.initial_serial);
    let mut handler = new_handler(&u, Some(&init), AxfrPolicy::AllowAll).await;
    let hooked = Arc::new(Mutex::new(Hooked::default()));
    let journal = new_journal();
    install_hooks(&journal, hooked.clone());
    handler.set_journal(journal).await;
    let server = Server::new(&u, handler);
    if let Err(e) = server.handler.persist_to_journal().await {
        exec::violate("C14.harness", "", format!("persist: {e}"));
        return;
    }
    let dump_rows = hooked.lock().unwrap().rows;
    let disk_full = p.disk_full_before.map(|d| (d, p.disk_full_slack));
    let t = match run_history(&server, &u, &p.msgs, &hooked, 0x2000, disk_full).await {
        Ok(t) => t,
        Err(e) => {
            exec::violate("C14.harness", "", e);
            return;
        }
    };
    let all_rows = {
        let g = server.handler.journal().await;
        read_rows(g.as_ref().expect("journal"))
    };
    let mut boundaries: Vec<u64> = hooked.lock().unwrap().boundaries.clone();
    boundaries.push(0);
    boundaries.push(all_rows.len() as u64);
    boundaries.sort_unstable();
    boundaries.dedup();
    boundaries.retain(|b| *b <= all_rows.len() as u64);
    exec::count_n("probe.crash_points", boundaries.len() as u64);
    let disk_full_hit = t.rcodes.iter().any(|rc| *rc == ResponseCode::ServFail) && p.disk_full_before.is_some();
    if disk_full_hit {
        exec::count("fault.disk_full_hit");
    }
    // an acknowledged (NOERROR) message must have all its rows durable: trivially true by
    // construction of rows_after; a refused message must not have changed the live zone
    // once a refused message has changed the live zone (a listed known finding), the server's
    // later live states are no longer what its journal describes: crash points after that
    // message are not judged in this run (narrow relaxation; everything before it still is)
    let mut tainted_from_row: Option<u64> = None;
    for (i, rc) in t.rcodes.iter().enumerate() {
        if *rc != ResponseCode::NoError && t.states[i + 1] != t.states[i] {
            let shape = if *rc == ResponseCode::ServFail && p.disk_full_before.is_some() { "servfail-after-disk-full" } else { "refused" };
            if exec::violate("C14.refused-changes-zone", shape, format!("message {i} answered {rc:?} but the live zone changed: {}", diff_zone(&t.states[i + 1].0, &t.states[i].0))) {
                return;
            }
            if tainted_from_row.is_none() {
                tainted_from_row = Some(t.rows_before[i]);
                exec::count("probe.tainted_by_known_finding");
            }
        }
    }
    let post_ix = if boundaries.is_empty() { 0 } else { (p.post_pick as usize) % boundaries.len() };
    for (bi, b) in boundaries.iter().copied().enumerate() {
        if let Some(tr) = tainted_from_row {
            if b >= tr {
                continue;
            }
        }
        if b == 0 {
            // a journal without any row: what the server does with it at start-up is decided in
            // try_from_config, which part `startup` exercises with real files
            exec::count("probe.crash_before_first_row");
            continue;
        }
        exec::count("fault.crash");
        let rows = &all_rows[..b as usize];
        let (lo, hi) = allowed_states(&t, b);
        // classify where this boundary lies
        let inflight = (0..t.rcodes.len()).find(|i| t.rows_before[*i] < b && b < t.rows_after[*i]);
        let place = if b < dump_rows {
            "inside-initial-dump".to_string()
        } else if let Some(i) = inflight {
            let n_upd = p.msgs[i].update.len() as u64;
            let done = b - t.rows_before[i];
            let base = if done < n_upd { "between-update-rows" } else { "before-soa-row" };
            if disk_full_hit { format!("{base}+disk-full") } else { base.to_string() }
        } else if disk_full_hit {
            "message-boundary+disk-full".to_string()
        } else {
            "message-boundary".to_string()
        };
        exec::count(&format!("probe.crash_at.{}", place.split('+').next().unwrap()));
        let (rec_handler, rec_journal) = match recover(&u, rows).await {
            Ok(x) => x,
            Err(e) => {
                if exec::violate("C14.recovery-fails", &place, format!("journal cut after {b} of {} rows: recover_with_journal failed: {e}", all_rows.len())) {
                    return;
                }
                continue;
            }
        };
        let rec_server = Server::new(&u, rec_handler);
        let (z, s, _) = rec_server.dump().await;
        let matched = if b < dump_rows { if t.states[0] == (z.clone(), s) { Some(0) } else { None } } else { (lo..=hi).find(|j| t.states[*j] == (z.clone(), s)) };
        let Some(j) = matched else {
            let near = &t.states[lo.min(t.states.len() - 1)];
            let content_only = (lo..=hi).any(|j| t.states[j].0 == z);
            let what = if content_only { format!("content equals a message boundary but serial {s} does not (expected {})", near.1) } else { diff_zone(&z, &near.0) };
            let kind = if content_only { "serial" } else { "content" };
            if exec::violate(
                "C14.recovered-state",
                &format!("{place}:{kind}"),
                format!("journal cut after {b} of {} rows (dump {dump_rows} rows; rows per message {:?}): recovered zone is not the zone after any whole number of messages in {lo}..={hi}: {what}", all_rows.len(), t.rows_after),
            ) {
                return;
            }
            continue;
        };
        // post-recovery behaviour equals a never-crashed twin's
        if bi == post_ix && !p.post.is_empty() && b >= dump_rows {
            // twin: fresh server, same initial zone, first j messages, no crash
            let mut th = new_handler(&u, Some(&init), AxfrPolicy::AllowAll).await;
            th.set_journal(new_journal()).await;
            let twin = Server::new(&u, th);
            let _ = twin.handler.persist_to_journal().await;
            let dummy = Arc::new(Mutex::new(Hooked::default()));
            let tt = match run_history(&twin, &u, &p.msgs[..j], &dummy, 0x2000, None).await {
                Ok(x) => x,
                Err(e) => {
                    exec::violate("C14.harness", "", e);
                    return;
                }
            };
            if tt.states.last() != Some(&t.states[j]) {
                // (can only differ when the disk-full fault changed the original run)
                exec::count("probe.twin_not_comparable");
                continue;
            }
            // the recovered server continues on the recovered journal
            let mut rh = match recover(&u, rows).await {
                Ok((h, jn)) => {
                    let mut h = h;
                    h.set_journal(jn).await;
                    h
                }
                Err(_) => continue,
            };
            rh.set_allow_update(true);
            let rsrv = Server::new(&u, rh);
            let a = run_history(&rsrv, &u, &p.post, &dummy, 0x3000, None).await;
            let bb = run_history(&twin, &u, &p.post, &dummy, 0x3000, None).await;
            match (a, bb) {
                (Ok(a), Ok(bb)) => {
                    exec::count("probe.post_recovery_histories");
                    if a.rcodes != bb.rcodes || a.states.last() != bb.states.last() {
                        if exec::violate(
                            "C14.post-recovery",
                            &place,
                            format!("after recovery at row {b} (= state after {j} messages) the post history answered {:?} / never-crashed twin {:?}; final zones differ: {}", a.rcodes, bb.rcodes, diff_zone(&a.states.last().unwrap().0, &bb.states.last().unwrap().0)),
                        ) {
                            return;
                        }
                    }
                }
                (Err(e), _) | (_, Err(e)) => {
                    exec::violate("C14.harness", "", e);
                    return;
                }
            }
        }
        drop(rec_journal);
    }
}

pub fn def_c14() -> CheckDef {
    CheckDef { id: "C14", level: "fault_enumeration", parts: vec![Box::new(C14Part), Box::new(StartupPart)] }
}

// ==========================================================================================
// C14 part "startup": the real start-up path (`try_from_config`) on real files: zone file,
// journal file, TSIG key file under a root directory that is not the working directory.

use hickory_server::store::sqlite::{SqliteConfig, TsigKeyConfig};
use std::path::{Path, PathBuf};

#[derive(Serialize, Deserialize, Clone, Debug)]
struct StartupPlan {
    sim: SimConfig,
    initial_serial: u32,
    /// update histories between restarts
    phases: Vec<Vec<UpdateMsg>>,
    /// the journal file exists (schema only, no rows) before the very first start: the stop hit
    /// after the file was created and before the initial dump committed
    empty_journal_first: bool,
    /// which journal commit boundary (index modulo count) of the first phase is additionally
    /// tried as a crash point through the start-up path
    crash_pick: u64,
}

pub struct StartupPart;

pub struct TempDir(pub PathBuf);
impl TempDir {
    pub fn new(tag: u64) -> Self {
        let base = if Path::new("/dev/shm").is_dir() { PathBuf::from("/dev/shm") } else { std::env::temp_dir() };
        let p = base.join(format!("hv-c14-{}-{tag:x}", std::process::id()));
        let _ = std::fs::remove_dir_all(&p);
        std::fs::create_dir_all(&p).expect("tempdir");
        Self(p)
    }
}
impl Drop for TempDir {
    fn drop(&mut self) {
        let _ = std::fs::remove_dir_all(&self.0);
    }
}

pub fn zone_file_text(u: &Universe, serial: u32) -> String {
    let mut s = String::new();
    s.push_str("$ORIGIN example.com.\n$TTL 3600\n");
    for r in initial_records(u, serial) {
        s.push_str(&format!("{} {} IN {} {}\n", r.name, r.ttl, r.record_type(), r.data));
    }
    s
}

pub fn startup_config() -> SqliteConfig {
    SqliteConfig {
        zone_path: PathBuf::from("example.com.zone"),
        journal_path: PathBuf::from("example.com.jrnl"),
        allow_update: true,
        tsig_keys: vec![TsigKeyConfig { name: KEY_NAME.to_string(), key_file: PathBuf::from("update.key"), algorithm: TsigAlgorithm::HmacSha256, fudge: 300 }],
    }
}

/// the real start-up path with a given transfer policy
pub async fn start_with_policy(u: &Universe, root: &Path, policy: AxfrPolicy) -> Result<SqliteZoneHandler<SimProvider>, String> {
    SqliteZoneHandler::<SimProvider>::try_from_config(u.origin.clone(), ZoneType::Primary, policy, false, Some(root), &startup_config(), None).await
}

async fn start(u: &Universe, root: &Path) -> Result<SqliteZoneHandler<SimProvider>, String> {
    SqliteZoneHandler::<SimProvider>::try_from_config(u.origin.clone(), ZoneType::Primary, AxfrPolicy::AllowAll, false, Some(root), &startup_config(), None).await
}

impl Part for StartupPart {
    fn name(&self) -> &'static str {
        "startup"
    }
    fn runs(&self, tier: Tier) -> u64 {
        match tier {
            Tier::Quick => 1_500,
            Tier::Thorough => 60_000,
        }
    }
    fn block(&self, _t: Tier) -> u64 {
        16
    }
    fn gen(&self, seed: u64, _tier: Tier) -> Value {
        let mut r = Rng::new(seed);
        let sim = SimConfig::from_seed(seed);
        let nph = 1 + r.usize_below(3);
        let phases = (0..nph)
            .map(|_| {
                let mut h = gen_history(&mut r, 3, false);
                for m in h.iter_mut() {
                    m.prereq.clear();
                }
                h
            })
            .collect();
        serde_json::to_value(StartupPlan { sim, initial_serial: *r.pick(&[100u32, 100, 0xFFFF_FFFE]), phases, empty_journal_first: r.chance(1, 4), crash_pick: r.next_u64() % 1000 }).unwrap()
    }
    fn run(&self, plan: &Value, trace: bool) -> Report {
        let mut p: StartupPlan = serde_json::from_value(plan.clone()).expect("plan");
        p.sim.trace = trace;
        let all: Vec<UpdateMsg> = p.phases.iter().flatten().cloned().collect();
        let (mut sig, _) = history_sig(&all);
        sig = mix(sig ^ (p.phases.len() as u64) << 50 ^ (p.empty_journal_first as u64) << 55);
        let tag = mix(sig ^ p.sim.sched_seed);
        let p2 = p.clone();
        let out = exec::run(&p.sim, async move { startup_scenario(p2, tag).await });
        finish(out, sig, true, "C14.stall")
    }
    fn shrink(&self, plan: &Value) -> Vec<Value> {
        let Ok(p) = serde_json::from_value::<StartupPlan>(plan.clone()) else { return vec![] };
        let mut out = Vec::new();
        if p.phases.len() > 1 {
            for i in 0..p.phases.len() {
                let mut q = p.clone();
                q.phases.remove(i);
                out.push(q);
            }
        }
        for i in 0..p.phases.len() {
            for h in shrink_history(&p.phases[i]) {
                let mut q = p.clone();
                q.phases[i] = h;
                out.push(q);
            }
        }
        if p.empty_journal_first {
            let mut q = p.clone();
            q.empty_journal_first = false;
            out.push(q);
        }
        out.into_iter().map(|q| serde_json::to_value(q).unwrap()).collect()
    }
    fn describe(&self) -> Describe {
        Describe {
            rule: "plan = 1-3 phases of 1-3 UPDATE messages separated by restarts through the real SqliteZoneHandler::try_from_config on real files (zone file, SQLite journal file, TSIG key file, all relative to a root directory that is not the working directory); optionally the journal file pre-exists with its schema but without rows (stop between file creation and the initial dump); one commit boundary of the first phase is cut into a journal file and started from; oracle = zone content and serial before the stop".into(),
            real: vec!["SqliteZoneHandler::try_from_config (journal-vs-zone-file decision, rooted paths, TSIG key loading)", "Journal::from_file / schema_up on a real SQLite file", "zone_from_path / master-file parser", "recover_with_journal, persist_to_journal, update path as in part crash"],
            stub: vec!["stop = dropping the handler (closes SQLite) or copying a committed row prefix into a fresh journal file"],
            assumptions: vec!["files live on tmpfs; fsync behaviour of a real disk is not modelled (commit boundaries are)"],
        }
    }
}

async fn startup_scenario(p: StartupPlan, tag: u64) {
    let u = universe();
    let dir = TempDir::new(tag);
    let root = dir.0.clone();
    std::fs::write(root.join("example.com.zone"), zone_file_text(&u, p.initial_serial)).expect("zone file");
    std::fs::write(root.join("update.key"), KEY_SECRET).expect("key file");
    if p.empty_journal_first {
        // what a stop right after the journal file was created leaves behind
        match Journal::from_file(&root.join("example.com.jrnl")) {
            Ok(j) => drop(j),
            Err(e) => {
                exec::violate("C14.harness", "", format!("cannot create journal file: {e}"));
                return;
            }
        }
        exec::count("fault.stop_before_initial_dump");
    }
    let init = initial_records(&u, p.initial_serial);
    let expected0 = model_from_records(&u, &init, p.initial_serial);
    let mut expected: ZoneState = (expected0.rrsets.clone(), p.initial_serial);
    let dummy = Arc::new(Mutex::new(Hooked::default()));
    for (pi, phase) in p.phases.iter().enumerate() {
        let handler = match start(&u, &root).await {
            Ok(h) => h,
            Err(e) => {
                let shape = if pi == 0 && p.empty_journal_first { "first-start-with-empty-journal" } else if pi == 0 { "first-start" } else { "restart" };
                exec::violate("C14.start-fails", shape, format!("start #{pi}: {e}"));
                return;
            }
        };
        exec::count("fault.restart");
        let server = Server::new(&u, handler);
        let (z, s, _) = server.dump().await;
        if (z.clone(), s) != expected {
            let shape = if pi == 0 && p.empty_journal_first { "first-start-with-empty-journal" } else if pi == 0 { "first-start" } else { "restart" };
            let kind = if z == expected.0 { format!("serial {s} != {}", expected.1) } else { diff_zone(&z, &expected.0) };
            exec::violate("C14.state-after-start", shape, format!("start #{pi}: zone differs from the zone before the stop: {kind}"));
            return;
        }
        // hooks on the live journal, to know the commit boundaries of this phase
        let hooked = Arc::new(Mutex::new(Hooked::default()));
        let rows_at_start = {
            let g = server.handler.journal().await;
            let j = g.as_ref().expect("journal");
            install_hooks(j, hooked.clone());
            read_rows(j).len() as u64
        };
        let t = match run_history(&server, &u, phase, &dummy, 0x5000 + 0x100 * pi as u16, None).await {
            Ok(t) => t,
            Err(e) => {
                exec::violate("C14.harness", "", e);
                return;
            }
        };
        expected = t.states.last().cloned().unwrap();
        // one crash point of the first phase through the real start-up path
        if pi == 0 {
            let (all_rows, bounds) = {
                let g = server.handler.journal().await;
                let j = g.as_ref().expect("journal");
                let rows = read_rows(j);
                let mut b: Vec<u64> = hooked.lock().unwrap().boundaries.iter().map(|x| x + rows_at_start).collect();
                b.push(rows_at_start);
                b.sort_unstable();
                b.dedup();
                (rows, b)
            };
            if !bounds.is_empty() {
                let b = bounds[(p.crash_pick as usize) % bounds.len()].min(all_rows.len() as u64);
                let cdir = TempDir::new(tag ^ 0x77);
                std::fs::copy(root.join("example.com.zone"), cdir.0.join("example.com.zone")).ok();
                std::fs::copy(root.join("update.key"), cdir.0.join("update.key")).ok();
                {
                    let j = match Journal::from_file(&cdir.0.join("example.com.jrnl")) {
                        Ok(j) => j,
                        Err(e) => {
                            exec::violate("C14.harness", "", format!("journal copy: {e}"));
                            return;
                        }
                    };
                    let conn = j.conn();
                    for (c, s, tt, r) in &all_rows[..b as usize] {
                        conn.execute("INSERT INTO records (client_id, soa_serial, timestamp, record) VALUES (?1, ?2, ?3, ?4)", rusqlite::params![c, s, tt, r]).expect("insert");
                    }
                }
                exec::count("fault.crash_via_startup");
                match start(&u, &cdir.0).await {
                    Err(e) => {
                        exec::violate("C14.start-fails", "after-crash", format!("journal file cut after {b} rows: {e}"));
                        return;
                    }
                    Ok(h) => {
                        let srv = Server::new(&u, h);
                        let (z, s, _) = srv.dump().await;
                        // row boundaries of this phase, relative to the whole journal
                        let ok = t.states.iter().enumerate().any(|(j, st)| {
                            let lo_ok = (0..j).all(|i| t.rows_before[i] + rows_at_start < b || t.rows_after[i] == t.rows_before[i]);
                            let hi_ok = (j..t.rcodes.len()).all(|i| t.rows_after[i] + rows_at_start > b || t.rows_after[i] == t.rows_before[i]);
                            *st == (z.clone(), s) && lo_ok && hi_ok
                        });
                        if !ok {
                            exec::violate("C14.state-after-start", "after-crash", format!("journal file cut after {b} of {} rows: started zone is not the zone after a whole number of messages (serial {s})", all_rows.len()));
                            return;
                        }
                    }
                }
            }
        }
        drop(server);
    }
    // final restart
    match start(&u, &root).await {
        Ok(h) => {
            let server = Server::new(&u, h);
            let (z, s, _) = server.dump().await;
            if (z.clone(), s) != expected {
                let kind = if z == expected.0 { format!("serial {s} != {}", expected.1) } else { diff_zone(&z, &expected.0) };
                exec::violate("C14.state-after-start", "restart", format!("final restart: zone differs from the zone before the stop: {kind}"));
            }
        }
        Err(e) => {
            exec::violate("C14.start-fails", "restart", format!("final restart: {e}"));
        }
    }
}
