//! rig_update — the real `Catalog` → `SqliteZoneHandler<SimProvider>` → `InMemoryZoneHandler`
//! → `Journal` (in-memory SQLite) stack driven through `Request::from_bytes` with TSIG-signed
//! UPDATE messages built by the real client-side signer.  Serves C12, C13 and C14.

use std::collections::{BTreeMap, BTreeSet};
use std::net::SocketAddr;
use std::sync::{Arc, Mutex};

use futures_util::stream::StreamExt;
use hickory_net::runtime::Time;
use hickory_net::xfer::{BufDnsStreamHandle, Protocol};
use hickory_proto::op::{Message, MessageType, OpCode, Query, ResponseCode};
use hickory_proto::rr::rdata::tsig::TsigAlgorithm;
use hickory_proto::rr::rdata::{A, CNAME, MX, NS, SOA, TXT};
use hickory_proto::rr::{DNSClass, LowerName, Name, RData, Record, RecordSet, RecordType, RrKey, TSigner};
use hickory_server::server::{Request, RequestHandler, ResponseHandle};
use hickory_server::store::in_memory::InMemoryZoneHandler;
use hickory_server::store::sqlite::{Journal, SqliteZoneHandler};
use hickory_server::zone_handler::{AxfrPolicy, Catalog, ZoneHandler, ZoneType};
use hsim::exec::{self, SimConfig};
use hsim::net::{SimProvider, SimTime};
use hsim::rng::mix;
use hsim::supervisor::{CheckDef, Describe, Part, Report, Tier};
use hsim::{End, Rng};
use rusqlite::Connection;
use serde::{Deserialize, Serialize};
use serde_json::Value;

use super::upd_model::{self as model, key_of, rdata_text, Key, Rec, RecSpec, TYPES};

pub const KEY_NAME: &str = "update-key.example.com.";
pub const KEY_SECRET: &[u8] = b"0123456789abcdef0123456789abcdef";

pub struct Universe {
    pub origin: Name,
    pub names: Vec<Name>,
}

pub fn universe() -> Universe {
    let n = |s: &str| Name::from_ascii(s).unwrap();
    Universe {
        origin: n("example.com."),
        names: vec![n("example.com."), n("a.example.com."), n("b.example.com."), n("c.b.example.com."), n("ns1.example.com."), n("other.org."), n("A.Example.COM.")],
    }
}

pub fn value(t: RecordType, ix: usize) -> Option<RData> {
    let n = |s: &str| Name::from_ascii(s).unwrap();
    Some(match t {
        RecordType::A => RData::A(A::new(192, 0, 2, 1 + (ix % 3) as u8)),
        RecordType::TXT => RData::TXT(TXT::new(vec![["x", "y", "zz"][ix % 3].to_string()])),
        RecordType::CNAME => RData::CNAME(CNAME([n("a.example.com."), n("target.example.net."), n("b.example.com.")][ix % 3].clone())),
        RecordType::NS => RData::NS(NS([n("ns1.example.com."), n("ns2.example.com."), n("ns3.example.net.")][ix % 3].clone())),
        RecordType::MX => RData::MX(MX::new(10 + (ix % 2) as u16, n("mail.example.com."))),
        RecordType::SOA => {
            let serial = [50u32, 1000, 0x8000_0100, 5, 0xFFFF_FFFF][ix % 5];
            RData::SOA(SOA::new(n("ns1.example.com."), n(["admin.example.com.", "root.example.com."][ix % 2]), serial, 3600, 600, 86400, 60))
        }
        _ => return None,
    })
}

pub fn class_of(c: u8) -> DNSClass {
    match c {
        0 => DNSClass::IN,
        1 => DNSClass::ANY,
        2 => DNSClass::NONE,
        _ => DNSClass::CH,
    }
}

pub fn build_record(u: &Universe, s: &RecSpec) -> Record {
    let name = u.names[s.name % u.names.len()].clone();
    let t = TYPES[s.rtype % TYPES.len()];
    let mut r = match s.rdata.and_then(|ix| value(t, ix)) {
        Some(rd) => Record::from_rdata(name, s.ttl, rd),
        None => Record::update0(name, s.ttl, t),
    };
    r.dns_class = class_of(s.class);
    r
}

/// what the model sees of a record (rdata presence decided exactly as on the wire)
pub fn model_rec<'a>(r: &'a Record) -> Rec<'a> {
    let rdata = match &r.data {
        RData::Update0(_) => None,
        d => Some(d),
    };
    Rec { name: &r.name, class: r.dns_class, rtype: r.record_type(), ttl: r.ttl, rdata }
}

#[derive(Clone, Debug, Serialize, Deserialize, PartialEq)]
pub struct UpdateMsg {
    pub prereq: Vec<RecSpec>,
    pub update: Vec<RecSpec>,
}

pub fn initial_records(u: &Universe, serial: u32) -> Vec<Record> {
    let n = |s: &str| Name::from_ascii(s).unwrap();
    vec![
        Record::from_rdata(u.origin.clone(), 3600, RData::SOA(SOA::new(n("ns1.example.com."), n("admin.example.com."), serial, 3600, 600, 86400, 60))),
        Record::from_rdata(u.origin.clone(), 3600, RData::NS(NS(n("ns1.example.com.")))),
        Record::from_rdata(n("ns1.example.com."), 3600, RData::A(A::new(192, 0, 2, 53))),
        Record::from_rdata(n("a.example.com."), 300, RData::A(A::new(192, 0, 2, 1))),
    ]
}

pub fn model_from_records(u: &Universe, recs: &[Record], serial: u32) -> model::Zone {
    let mut rrsets: BTreeMap<Key, BTreeSet<String>> = BTreeMap::new();
    for r in recs {
        rrsets.entry(key_of(&r.name, r.record_type())).or_default().insert(rdata_text(&r.data));
    }
    model::Zone { origin: u.origin.to_lowercase().to_ascii(), rrsets, serial }
}

pub fn signer() -> TSigner {
    TSigner::new(KEY_SECRET.to_vec(), TsigAlgorithm::HmacSha256, Name::from_ascii(KEY_NAME).unwrap(), 300).unwrap()
}

pub fn build_update_message(u: &Universe, id: u16, m: &UpdateMsg) -> Message {
    let mut msg = Message::new(id, MessageType::Query, OpCode::Update);
    msg.add_query(Query::new(u.origin.clone(), RecordType::SOA));
    for p in &m.prereq {
        msg.add_answer(build_record(u, p));
    }
    for p in &m.update {
        msg.add_authority(build_record(u, p));
    }
    msg
}

/// the server under test
pub struct Server {
    pub catalog: Catalog,
    pub handler: Arc<SqliteZoneHandler<SimProvider>>,
    pub src: SocketAddr,
}

pub async fn new_handler(u: &Universe, records: Option<&[Record]>, axfr: AxfrPolicy) -> SqliteZoneHandler<SimProvider> {
    let in_mem: InMemoryZoneHandler<SimProvider> = match records {
        Some(recs) => {
            let mut map: BTreeMap<RrKey, RecordSet> = BTreeMap::new();
            for r in recs {
                let k = RrKey::new(LowerName::new(&r.name), r.record_type());
                map.entry(k).or_insert_with(|| RecordSet::new(r.name.clone(), r.record_type(), 0)).insert(r.clone(), 0);
            }
            InMemoryZoneHandler::new(u.origin.clone(), map, ZoneType::Primary, AxfrPolicy::AllowAll, None).expect("zone")
        }
        None => InMemoryZoneHandler::empty(u.origin.clone(), ZoneType::Primary, AxfrPolicy::AllowAll, None),
    };
    let mut h = SqliteZoneHandler::new(in_mem, axfr, true, false);
    h.set_tsig_signers(vec![signer()]);
    h
}

pub fn new_journal() -> Journal {
    let conn = Connection::open_in_memory().expect("sqlite");
    let mut j = Journal::new(conn).expect("journal");
    j.schema_up().expect("schema");
    j
}

impl Server {
    pub fn new(u: &Universe, handler: SqliteZoneHandler<SimProvider>) -> Self {
        let handler = Arc::new(handler);
        let mut catalog = Catalog::new();
        catalog.upsert(LowerName::new(&u.origin), vec![handler.clone() as Arc<dyn ZoneHandler>]);
        Self { catalog, handler, src: "10.0.0.9:5300".parse().unwrap() }
    }

    /// push raw request bytes through the real request path; returns the response bytes (if any)
    pub async fn handle<T: Time>(&self, bytes: Vec<u8>, protocol: Protocol) -> Result<Option<Vec<u8>>, String> {
        let req = Request::from_bytes(bytes, self.src, protocol).map_err(|e| format!("request parse: {e}"))?;
        let (handle, mut rx) = BufDnsStreamHandle::new(self.src);
        let rh = ResponseHandle::new(self.src, handle, protocol);
        self.catalog.handle_request::<_, T>(&req, rh).await;
        // the response (if any) is already queued
        match futures_util::FutureExt::now_or_never(rx.next()) {
            Some(Some(m)) => Ok(Some(m.into_parts().0)),
            _ => Ok(None),
        }
    }

    /// hash of the complete zone including TTLs (used only to decide "did anything change")
    pub async fn fingerprint(&self) -> u64 {
        let recs = self.handler.records().await;
        let mut h = 0u64;
        for (k, set) in recs.iter() {
            for r in set.records_without_rrsigs() {
                if r.record_type() == RecordType::SOA {
                    // the serial is judged separately
                    h = hsim::rng::hash_bytes(mix(h), format!("{} {} {}", k.name, r.ttl, rdata_text(&r.data)).as_bytes());
                } else {
                    h = hsim::rng::hash_bytes(mix(h), format!("{} {} {} {}", k.name, k.record_type, r.ttl, r.data).as_bytes());
                }
            }
        }
        h
    }

    pub async fn dump(&self) -> (BTreeMap<Key, BTreeSet<String>>, u32, usize) {
        let recs = self.handler.records().await;
        let mut out: BTreeMap<Key, BTreeSet<String>> = BTreeMap::new();
        let mut empty_sets = 0;
        for (k, set) in recs.iter() {
            let mut any = false;
            for r in set.records_without_rrsigs() {
                any = true;
                out.entry((k.name.to_string().to_lowercase(), u16::from(k.record_type))).or_default().insert(rdata_text(&r.data));
            }
            if !any {
                empty_sets += 1;
            }
        }
        drop(recs);
        let serial = self.handler.serial().await;
        (out, serial, empty_sets)
    }
}

pub fn finish<T>(out: hsim::RunOut<T>, sig: u64, nontrivial: bool, stall_inv: &str) -> Report {
    let mut rep = Report {
        violation: out.violation.clone(),
        counters: out.counters,
        sig,
        nontrivial,
        log_hash: out.log_hash,
        ilog_hash: out.ilog_hash,
        sim_ns: out.sim_ns,
        steps: out.steps,
        trace: out.trace,
    };
    if rep.violation.is_none() && out.end != End::Completed {
        rep.violation = Some(hsim::Violation { invariant: stall_inv.into(), shape: String::new(), detail: format!("run ended {:?} after {} steps / {} ns", out.end, out.steps, out.sim_ns) });
    }
    rep
}

// ------------------------------------------------------------------------------------------
// generation of UPDATE histories

pub fn gen_spec(r: &mut Rng, section_update: bool, wild: bool) -> RecSpec {
    // names: mostly in-zone
    let name = match r.below(20) {
        0 => 5,             // out of zone
        1 => 6,             // mixed-case alias of a.example.com.
        2..=6 => 0,         // apex
        7..=11 => 1,
        12..=14 => 2,
        15..=16 => 3,
        _ => 4,
    };
    let data_types = [0usize, 1, 2, 3, 4, 5]; // A TXT CNAME NS SOA MX
    let malformed = wild && r.chance(1, 6);
    if section_update {
        match r.below(10) {
            0..=4 => RecSpec { name, class: 0, rtype: *r.pick(&data_types), ttl: *r.pick(&[300u32, 300, 60, 0]), rdata: Some(r.usize_below(5)) },
            5 => RecSpec { name, class: 1, rtype: 6, ttl: 0, rdata: None },
            6..=7 => RecSpec { name, class: 1, rtype: *r.pick(&data_types), ttl: 0, rdata: None },
            _ => RecSpec { name, class: 2, rtype: *r.pick(&data_types), ttl: 0, rdata: Some(r.usize_below(5)) },
        }
    } else {
        match r.below(10) {
            0..=1 => RecSpec { name, class: 1, rtype: 6, ttl: 0, rdata: None },
            2..=3 => RecSpec { name, class: 1, rtype: *r.pick(&data_types), ttl: 0, rdata: None },
            4..=5 => RecSpec { name, class: 2, rtype: 6, ttl: 0, rdata: None },
            6..=7 => RecSpec { name, class: 2, rtype: *r.pick(&data_types), ttl: 0, rdata: None },
            _ => RecSpec { name, class: 0, rtype: *r.pick(&data_types), ttl: 0, rdata: Some(r.usize_below(5)) },
        }
    }
    .malform(r, malformed)
}

trait Malform {
    fn malform(self, r: &mut Rng, on: bool) -> Self;
}
impl Malform for RecSpec {
    fn malform(mut self, r: &mut Rng, on: bool) -> Self {
        if !on {
            return self;
        }
        match r.below(6) {
            0 => self.ttl = 7,
            1 => self.class = 3,
            2 => self.rtype = 7, // AXFR
            3 => {
                if self.class != 0 {
                    self.rdata = Some(r.usize_below(3));
                    if self.rtype >= 6 {
                        self.rtype = 0;
                    }
                }
            }
            4 => self.rtype = 6, // ANY
            _ => self.name = 5,
        }
        self
    }
}

pub fn gen_history(r: &mut Rng, max_msgs: usize, wild: bool) -> Vec<UpdateMsg> {
    let n = 1 + r.usize_below(max_msgs);
    (0..n)
        .map(|_| {
            let np = if r.chance(1, 2) { 0 } else { 1 + r.usize_below(2) };
            let nu = 1 + r.usize_below(3);
            UpdateMsg { prereq: (0..np).map(|_| gen_spec(r, false, wild)).collect(), update: (0..nu).map(|_| gen_spec(r, true, wild)).collect() }
        })
        .collect()
}

// ------------------------------------------------------------------------------------------
// C12

#[derive(Serialize, Deserialize, Clone, Debug)]
struct C12Plan {
    sim: SimConfig,
    initial_serial: u32,
    msgs: Vec<UpdateMsg>,
    journal: bool,
}

pub struct C12Part;

fn history_sig(msgs: &[UpdateMsg]) -> (u64, bool) {
    // distinct by the multiset of (section, class, type-kind, name-kind) forms and length
    let mut h = msgs.len() as u64;
    for m in msgs {
        for (sec, list) in [(0u64, &m.prereq), (1, &m.update)] {
            for s in list {
                let nk = match s.name {
                    0 => 0u64,
                    5 => 2,
                    _ => 1,
                };
                h = mix(h ^ (sec << 40 | (s.class as u64) << 32 | (s.rtype as u64) << 24 | nk << 16 | (s.rdata.is_some() as u64) << 8 | (s.ttl != 0) as u64));
            }
        }
        h = mix(h ^ 0xabcd);
    }
    (h, msgs.iter().any(|m| !m.update.is_empty()))
}

impl Part for C12Part {
    fn name(&self) -> &'static str {
        "rfc2136"
    }
    fn runs(&self, tier: Tier) -> u64 {
        match tier {
            Tier::Quick => 40_000,
            Tier::Thorough => 2_000_000,
        }
    }
    fn block(&self, _t: Tier) -> u64 {
        64
    }
    fn gen(&self, seed: u64, _tier: Tier) -> Value {
        let mut r = Rng::new(seed);
        let sim = SimConfig::from_seed(seed);
        let wild = r.chance(1, 2);
        let msgs = gen_history(&mut r, 6, wild);
        let initial_serial = *r.pick(&[100u32, 100, 0xFFFF_FFFE, 0x7FFF_FFFF, 999]);
        serde_json::to_value(C12Plan { sim, initial_serial, msgs, journal: r.bool() }).unwrap()
    }
    fn run(&self, plan: &Value, trace: bool) -> Report {
        let mut p: C12Plan = serde_json::from_value(plan.clone()).expect("plan");
        p.sim.trace = trace;
        let (sig, nontrivial) = history_sig(&p.msgs);
        let p2 = p.clone();
        let out = exec::run(&p.sim, async move { c12_scenario(p2).await });
        finish(out, sig, nontrivial, "C12.stall")
    }
    fn shrink(&self, plan: &Value) -> Vec<Value> {
        let Ok(p) = serde_json::from_value::<C12Plan>(plan.clone()) else { return vec![] };
        shrink_history(&p.msgs)
            .into_iter()
            .map(|m| {
                let mut q = p.clone();
                q.msgs = m;
                serde_json::to_value(q).unwrap()
            })
            .chain(
                [p.initial_serial != 100, p.journal]
                    .iter()
                    .enumerate()
                    .filter(|(_, b)| **b)
                    .map(|(i, _)| {
                        let mut q = p.clone();
                        if i == 0 {
                            q.initial_serial = 100;
                        } else {
                            q.journal = false;
                        }
                        serde_json::to_value(q).unwrap()
                    }),
            )
            .collect()
    }
    fn describe(&self) -> Describe {
        Describe {
            rule: "plan = history of 1-6 TSIG-signed UPDATE messages, each 0-2 prerequisite RRs and 1-3 update RRs drawn from every row of RFC 2136 tables 3.2.4 / 3.4.2.6 plus malformed rows (ttl!=0, rdata on ANY/NONE, class CH, type AXFR/ANY, out-of-zone owner), over 6 owner names (apex, 3 hosts, an ENT-creating name, mixed-case alias), types A/TXT/CNAME/NS/SOA/MX, 3-5 rdata values, initial serial incl. wrap-around values; non-trivial = at least one update RR; distinct by the sequence of (section, class, type, name-kind, rdata presence, ttl!=0) forms".into(),
            real: vec!["Request::from_bytes / MessageRequest parser", "Catalog::handle_request -> Catalog::update", "SqliteZoneHandler::{authorize_update, verify_prerequisites, pre_scan, update_records}", "InMemoryZoneHandler / RecordSet::{insert,remove}", "TSigner (client side signing, server side verification)", "Journal on in-memory SQLite (half of the runs)"],
            stub: vec!["transport (bytes handed over in-process)", "RFC 2136 reference model (oracle)"],
            assumptions: vec!["TTLs are excluded from the content comparison (RFC 2136 leaves RRset TTL handling on add to RFC 2181)", "requests of a history are applied one after another (no racing UPDATEs)"],
        }
    }
}

pub fn shrink_history(msgs: &[UpdateMsg]) -> Vec<Vec<UpdateMsg>> {
    let mut out = Vec::new();
    for i in 0..msgs.len() {
        if msgs.len() > 1 {
            let mut m = msgs.to_vec();
            m.remove(i);
            out.push(m);
        }
    }
    for i in 0..msgs.len() {
        for j in 0..msgs[i].prereq.len() {
            let mut m = msgs.to_vec();
            m[i].prereq.remove(j);
            out.push(m);
        }
        if msgs[i].update.len() > 1 {
            for j in 0..msgs[i].update.len() {
                let mut m = msgs.to_vec();
                m[i].update.remove(j);
                out.push(m);
            }
        }
    }
    out
}

fn rc_name(rc: ResponseCode) -> String {
    format!("{rc:?}")
}

pub fn diff_zone(a: &BTreeMap<Key, BTreeSet<String>>, b: &BTreeMap<Key, BTreeSet<String>>) -> String {
    let mut s = Vec::new();
    for (k, v) in a {
        let o = b.get(k).cloned().unwrap_or_default();
        for x in v.difference(&o) {
            s.push(format!("only-real {} {}", k.0, x));
        }
    }
    for (k, v) in b {
        let o = a.get(k).cloned().unwrap_or_default();
        for x in v.difference(&o) {
            s.push(format!("only-model {} {}", k.0, x));
        }
    }
    s.join("; ")
}

/// classify a content difference into a stable shape
fn content_shape(u: &Universe, real: &BTreeMap<Key, BTreeSet<String>>, modelz: &BTreeMap<Key, BTreeSet<String>>) -> String {
    let apex = u.origin.to_lowercase().to_ascii();
    let soa = u16::from(RecordType::SOA);
    let ns = u16::from(RecordType::NS);
    let mut shapes = BTreeSet::new();
    let keys: BTreeSet<&Key> = real.keys().chain(modelz.keys()).collect();
    for k in keys {
        let r = real.get(k);
        let m = modelz.get(k);
        if r == m {
            continue;
        }
        let tname = RecordType::from(k.1).to_string();
        let where_ = if k.0 == apex { "apex" } else { "name" };
        let kind = match (r, m) {
            (None, Some(_)) => "missing",
            (Some(_), None) => "extra",
            _ => "differs",
        };
        let _ = (soa, ns);
        shapes.insert(format!("{kind}-{tname}@{where_}"));
    }
    shapes.into_iter().collect::<Vec<_>>().join("+")
}

async fn c12_scenario(p: C12Plan) {
    let u = universe();
    let init = initial_records(&u, p.initial_serial);
    let mut handler = new_handler(&u, Some(&init), AxfrPolicy::AllowAll).await;
    if p.journal {
        handler.set_journal(new_journal()).await;
        if let Err(e) = handler.persist_to_journal().await {
            exec::violate("C12.harness", "", format!("persist: {e}"));
            return;
        }
    }
    let server = Server::new(&u, handler);
    let mut modelz = model_from_records(&u, &init, p.initial_serial);
    let signer = signer();
    for (i, m) in p.msgs.iter().enumerate() {
        let mut msg = build_update_message(&u, 0x1000 + i as u16, m);
        if let Err(e) = msg.finalize(&signer, SimTime::current_time()) {
            exec::violate("C12.harness", "", format!("sign: {e}"));
            return;
        }
        let Ok(bytes) = msg.to_vec() else {
            exec::violate("C12.harness", "", "encode".into());
            return;
        };
        // the model reads the records back from the *wire* image, so that what it judges is
        // exactly what was transmitted
        let Ok(wire) = Message::from_vec(&bytes) else {
            exec::violate("C12.harness", "", "own message does not decode".into());
            return;
        };
        let pre: Vec<Rec<'_>> = wire.answers.iter().map(model_rec).collect();
        let upd: Vec<Rec<'_>> = wire.authorities.iter().map(model_rec).collect();
        let before = modelz.clone();
        let mut any_step = false;
        let pre_fails = modelz.prerequisites(&pre);
        let scan_fails = if pre_fails.is_empty() { modelz.prescan(&upd) } else { Vec::new() };
        let (expected, stage): (Vec<ResponseCode>, &str) = if !pre_fails.is_empty() {
            (pre_fails, "prereq")
        } else if !scan_fails.is_empty() {
            (scan_fails, "prescan")
        } else {
            any_step = modelz.update(&upd);
            (vec![ResponseCode::NoError], "update")
        };
        let changed = modelz.rrsets != before.rrsets || modelz.serial != before.serial;
        let (real_before, serial_before, _) = server.dump().await;
        let fp_before = server.fingerprint().await;
        let resp = match server.handle::<SimTime>(bytes, Protocol::Tcp).await {
            Ok(Some(b)) => b,
            Ok(None) => {
                exec::violate("C12.response", "none", format!("message {i}: no response"));
                return;
            }
            Err(e) => {
                exec::violate("C12.harness", "", e);
                return;
            }
        };
        let Ok(rmsg) = Message::from_vec(&resp) else {
            exec::violate("C12.response", "undecodable", format!("message {i}: response does not decode"));
            return;
        };
        let got_rc = rmsg.metadata.response_code;
        let (real_after, serial_after, empty_sets) = server.dump().await;
        let fp_after = server.fingerprint().await;
        if empty_sets > 0 {
            exec::count("probe.empty_rrset_entries");
        }
        exec::count(&format!("probe.rcode.{}", rc_name(got_rc)));
        exec::count(&format!("probe.stage.{stage}"));
        let mut resync = false;

        // (1) a refused message changes nothing
        if got_rc != ResponseCode::NoError && (real_after != real_before || serial_after != serial_before) {
            if exec::violate("C12.atomic", &format!("changed-on-{}", rc_name(got_rc)), format!("message {i} answered {got_rc:?} but the zone changed: {}", diff_zone(&real_after, &real_before))) {
                return;
            }
            resync = true;
        }
        // (2) accepted / rejected as RFC 2136 prescribes.  When several prerequisites (or update
        // RRs) fail, any of their codes is accepted; the code is only pinned when all failing
        // items agree on it.
        let mut exp_set: Vec<ResponseCode> = expected.clone();
        exp_set.sort_by_key(|c| u16::from(*c));
        exp_set.dedup();
        let ok = if stage == "update" { got_rc == ResponseCode::NoError } else { exp_set.contains(&got_rc) };
        if !ok {
            let exp_txt = exp_set.iter().map(|c| rc_name(*c)).collect::<Vec<_>>().join("|");
            // Prerequisite verdicts that differ because hickory evaluates prerequisites with
            // query-style lookups get their own invariant id and a cause-specific shape.
            let causes: BTreeSet<&str> = pre.iter().filter_map(|r| before.lookup_cause(r)).collect();
            let prereq_code = matches!(got_rc, ResponseCode::NXDomain | ResponseCode::NXRRSet | ResponseCode::YXDomain | ResponseCode::YXRRSet);
            let fatal = if !causes.is_empty() && (stage == "prereq" || prereq_code) {
                // one cause per report, by fixed priority, so that the shape is stable
                let cause = ["at-or-below-delegation", "cname-at-owner", "value-prereq-subset-of-rrset"].into_iter().find(|c| causes.contains(c)).unwrap_or("other").to_string();
                exec::violate("C12.prereq", &cause, format!("message {i} ({m:?}): RFC 2136 {stage} gives {exp_txt}, server answered {got_rc:?}"))
            } else {
                exec::violate("C12.rcode", &format!("{stage}:{exp_txt}->{}", rc_name(got_rc)), format!("message {i} ({m:?}): RFC 2136 {stage} gives {exp_txt}, server answered {got_rc:?}"))
            };
            if fatal {
                return;
            }
            resync = true;
        }
        // (3) content
        if !resync && real_after != modelz.rrsets {
            let shape = content_shape(&u, &real_after, &modelz.rrsets);
            if exec::violate("C12.content", &shape, format!("message {i} ({m:?}): {}", diff_zone(&real_after, &modelz.rrsets))) {
                return;
            }
            resync = true;
        }
        // (4) serial advances iff content changed
        if !resync {
            let real_changed = real_after != real_before || fp_before != fp_after;
            let advanced = model::serial_lt(serial_before, serial_after);
            if modelz.serial != before.serial {
                // the message itself carried an accepted SOA RR: the new serial is the one it
                // set, optionally auto-incremented once (RFC 2136 3.6)
                if serial_after != modelz.serial && serial_after != modelz.serial.wrapping_add(1) {
                    if exec::violate("C12.serial", "soa-update-mismatch", format!("message {i} ({m:?}): serial {serial_before} -> {serial_after}, the accepted SOA update RR sets {}", modelz.serial)) {
                        return;
                    }
                }
            } else if serial_after != serial_before && !advanced {
                if exec::violate("C12.serial", "backwards", format!("message {i} ({m:?}): serial {serial_before} -> {serial_after}")) {
                    return;
                }
            } else if (real_changed || changed) && !advanced {
                if exec::violate("C12.serial", "not-advanced", format!("message {i} ({m:?}): content changed, serial stayed {serial_before}")) {
                    return;
                }
            } else if !real_changed && !changed && !any_step && advanced {
                if exec::violate("C12.serial", "advanced-without-change", format!("message {i} ({m:?}): nothing changed, serial {serial_before} -> {serial_after}")) {
                    return;
                }
            }
        }
        // (5) well-formedness
        let apex = u.origin.to_lowercase().to_ascii();
        let soa_count: usize = real_after.iter().filter(|(k, _)| k.1 == u16::from(RecordType::SOA)).map(|(_, v)| v.len()).sum();
        let apex_soa = real_after.get(&(apex.clone(), u16::from(RecordType::SOA))).map(|s| s.len()).unwrap_or(0);
        if soa_count != 1 || apex_soa != 1 {
            if exec::violate("C12.wellformed", &format!("soa-count-{}-apex-{}", soa_count.min(2), apex_soa.min(2)), format!("message {i} ({m:?}): zone has {soa_count} SOA records, {apex_soa} at the apex")) {
                return;
            }
        }
        if real_after.get(&(apex.clone(), u16::from(RecordType::NS))).map(|s| s.len()).unwrap_or(0) == 0 {
            if exec::violate("C12.wellformed", "no-apex-ns", format!("message {i} ({m:?}): no NS left at the apex")) {
                return;
            }
        }
        let cname_t = u16::from(RecordType::CNAME);
        for (k, _) in real_after.iter().filter(|(k, _)| k.1 == cname_t) {
            if real_after.keys().any(|o| o.0 == k.0 && o.1 != cname_t) {
                if exec::violate("C12.wellformed", "cname-with-other-data", format!("message {i}: {} holds a CNAME and other data", k.0)) {
                    return;
                }
            }
        }
        if resync {
            // continue the history from the server's actual state
            modelz.rrsets = real_after;
            modelz.serial = serial_after;
        } else {
            modelz.serial = serial_after;
        }
    }
}

pub fn def_c12() -> CheckDef {
    CheckDef { id: "C12", level: "exploration", parts: vec![Box::new(C12Part)] }
}

#[allow(dead_code)]
fn _unused(_: Mutex<()>) {}
