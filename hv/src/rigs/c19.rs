//! C19 — recursive resolution ignores out-of-bailiwick data and always terminates.
//!
//! Real `Recursor` (non-validating) → `RecursorDnsHandle` → `NameServerPool` → `NameServer` →
//! `DnsExchange` → `UdpClientStream` / `TcpClientStream`, all on the simulated network, against a
//! generated internet of scripted authoritative servers: root + up to three levels, one or two
//! servers per zone, NS host names inside the child / in the parent / in an unrelated zone / equal
//! to the zone itself, glue present / absent / pointing at a dead address, lame servers, CNAME
//! chains and loops across zones.  Any non-root server may be *hostile*: it appends plan-chosen
//! records whose owner lies outside every zone it was ever delegated (hosted or merely listed
//! for) to chosen sections of its responses.  Everything a hostile server says *inside* its
//! bailiwick is honest, so every record the recursor hands out must be world truth.
//!
//! Oracles: (a) no injected record is returned, contacted as a name server, or resurfaces once
//! all servers are honest again; (b) denied server addresses are never contacted, denied answer
//! addresses never returned; (c) every resolution ends (answer or error) within the step budget
//! and with a bounded number of upstream queries; (d) in plain worlds (in-zone name servers with
//! glue, no faults) existing names resolve to the truth.

use std::cell::RefCell;
use std::collections::{BTreeMap, BTreeSet};
use std::net::{IpAddr, Ipv4Addr, SocketAddr};
use std::rc::Rc;
use std::time::{Duration, Instant};

use hickory_proto::op::{Message, OpCode, Query, ResponseCode};
use hickory_proto::rr::rdata::{A, CNAME, NS, SOA};
use hickory_proto::rr::{Name, RData, Record, RecordType};
use hickory_resolver::recursor::{QNameMinimization, Recursor, RecursorOptions};
use hsim::exec::{self, SimConfig};
use hsim::net::{self, ConnectVerdict, PipePlan, SimProvider, UdpOut, MS};
use hsim::rng::mix;
use hsim::supervisor::{CheckDef, Describe, Part, Report, Tier};
use hsim::Rng;
use ipnet::IpNet;
use serde::{Deserialize, Serialize};
use serde_json::Value;

use super::update::finish;

const CLIENT: IpAddr = IpAddr::V4(Ipv4Addr::new(44, 0, 0, 1));

fn server_ip(k: usize) -> Ipv4Addr {
    Ipv4Addr::new(44, 1, 0, 1 + k as u8)
}
/// address carried by an injected out-of-bailiwick record (never legitimate)
fn marker_ip(server: usize, j: usize) -> Ipv4Addr {
    Ipv4Addr::new(45, 0, server as u8, 1 + j as u8)
}
/// address of an attacker-named host announced inside the injector's own bailiwick: returning it
/// is legitimate, contacting it is only possible through an accepted out-of-bailiwick NS record
fn tainted_ip(server: usize, j: usize) -> Ipv4Addr {
    Ipv4Addr::new(47, 0, server as u8, 1 + j as u8)
}
/// the honest address of `www.<zone>` / other data names
fn truth_ip(zone: usize, r: usize) -> Ipv4Addr {
    Ipv4Addr::new(46, 0, zone as u8, 1 + r as u8)
}
/// glue that points nowhere
const DEAD_IP: Ipv4Addr = Ipv4Addr::new(44, 9, 9, 9);
/// what a contacted marker address answers with
const PWNED_IP: Ipv4Addr = Ipv4Addr::new(45, 255, 255, 254);

fn is_marker(ip: Ipv4Addr) -> bool {
    ip.octets()[0] == 45
}
fn is_tainted(ip: Ipv4Addr) -> bool {
    ip.octets()[0] == 47
}

fn n(s: &str) -> Name {
    Name::from_ascii(s).unwrap_or_else(|_| Name::root())
}

#[derive(Serialize, Deserialize, Clone, Debug, PartialEq)]
struct NsEntry {
    /// NS target host name (absolute)
    host: String,
    server: usize,
    /// listed in the delegation but the server does not host the zone
    lame: bool,
}

#[derive(Serialize, Deserialize, Clone, Debug, PartialEq)]
enum RecKind {
    A,
    Cname(String),
}

#[derive(Serialize, Deserialize, Clone, Debug, PartialEq)]
struct DataRec {
    owner: String,
    kind: RecKind,
}

#[derive(Serialize, Deserialize, Clone, Debug, PartialEq)]
struct Zone {
    origin: String,
    ns: Vec<NsEntry>,
    /// glue in the parent's referral: 0 present, 1 absent, 2 dead address
    glue: u8,
    recs: Vec<DataRec>,
}

#[derive(Serialize, Deserialize, Clone, Debug, PartialEq)]
struct Inject {
    owner: String,
    /// 0 A(marker), 1 NS → attacker host (+ glue), 2 CNAME → attacker name, 3 NS → host inside
    /// the injector's own zone (+ in-bailiwick glue with a tainted address)
    kind: u8,
    /// 0 answer, 1 authority, 2 additional
    section: u8,
    /// 0 every response, 1 referrals only, 2 authoritative answers only — none of these rides on
    /// a response to an address query for a name server host name; 3 = exactly those responses (the
    /// responses `append_ips_from_lookup` consumes)
    on: u8,
}

#[derive(Serialize, Deserialize, Clone, Debug, PartialEq)]
struct Srv {
    inject: Vec<Inject>,
    /// 0 answers, 1 silent over UDP (TCP refused), 2 SERVFAIL
    fault: u8,
    latency_ms: u32,
}

#[derive(Serialize, Deserialize, Clone, Debug)]
struct Plan {
    sim: SimConfig,
    zones: Vec<Zone>,
    servers: Vec<Srv>,
    recursion_limit: u8,
    ns_recursion_limit: u8,
    relaxed_qmin: bool,
    small_caches: bool,
    /// server indices whose address is in `deny_server`
    deny_servers: Vec<usize>,
    /// deny the truth address of `www.<zone k>` in answers
    deny_answer_zone: Option<usize>,
    /// authoritative servers add the in-zone target of a CNAME to the answer
    chase_in_zone: bool,
    plain: bool,
    queries: Vec<(String, u8)>,
    concurrent: bool,
    /// TTL of every record the servers hand out
    #[serde(default = "default_ttl")]
    ttl: u32,
    /// pause between sequential questions and before the second phase (cache expiry)
    #[serde(default)]
    gap_ms: u64,
    /// servers that answer over UDP with TC set and nothing else (the answer comes over TCP)
    #[serde(default)]
    truncate_udp: Vec<usize>,
    #[serde(default)]
    case_randomization: bool,
}

fn default_ttl() -> u32 {
    300
}

fn qtype_of(t: u8) -> RecordType {
    match t {
        0 => RecordType::A,
        1 => RecordType::AAAA,
        2 => RecordType::NS,
        3 => RecordType::CNAME,
        _ => RecordType::TXT,
    }
}

// ------------------------------------------------------------------------------------------
// world

struct World {
    zones: Vec<Zone>,
    origins: Vec<Name>,
    /// per server: zones hosted
    hosted: Vec<BTreeSet<usize>>,
    /// per server: zones hosted or merely listed for
    delegated: Vec<BTreeSet<usize>>,
    /// per zone: owner (lower-case ascii) -> rrsets
    data: Vec<BTreeMap<String, BTreeMap<u16, Vec<RData>>>>,
    /// every NS target host name of the world
    ns_hosts: BTreeSet<String>,
    chase_in_zone: bool,
    ttl: u32,
}

impl World {
    fn build(p: &Plan) -> Self {
        let origins: Vec<Name> = p.zones.iter().map(|z| n(&z.origin)).collect();
        let ns = p.servers.len();
        let mut hosted = vec![BTreeSet::new(); ns];
        let mut delegated = vec![BTreeSet::new(); ns];
        for (zi, z) in p.zones.iter().enumerate() {
            for e in &z.ns {
                if e.server < ns {
                    delegated[e.server].insert(zi);
                    if !e.lame {
                        hosted[e.server].insert(zi);
                    }
                }
            }
        }
        let mut w = Self { zones: p.zones.clone(), origins, hosted, delegated, data: vec![BTreeMap::new(); p.zones.len()], ns_hosts: p.zones.iter().flat_map(|z| z.ns.iter().map(|e| key(&n(&e.host)))).collect(), chase_in_zone: p.chase_in_zone, ttl: p.ttl };
        for zi in 0..w.zones.len() {
            let o = w.origins[zi].clone();
            let soa = RData::SOA(SOA::new(n(&format!("ns.{}", w.zones[zi].origin)), n("admin."), 1, 3600, 600, 86400, 300));
            w.put(zi, &o, soa);
            for e in w.zones[zi].ns.clone() {
                w.put(zi, &o, RData::NS(NS(n(&e.host))));
            }
            let www = n(&format!("www.{}", w.zones[zi].origin));
            w.put(zi, &www, RData::A(A(truth_ip(zi, 0))));
            for (ri, r) in w.zones[zi].recs.clone().iter().enumerate() {
                let owner = n(&r.owner);
                if w.zone_of_name(&owner) != Some(zi) {
                    continue;
                }
                match &r.kind {
                    RecKind::A => w.put(zi, &owner, RData::A(A(truth_ip(zi, 1 + ri)))),
                    RecKind::Cname(t) => {
                        // one CNAME per owner, nothing else there
                        if !w.data[zi].contains_key(&key(&owner)) {
                            w.put(zi, &owner, RData::CNAME(CNAME(n(t))));
                        }
                    }
                }
            }
        }
        // address records of the NS hosts, in the zone that encloses the host name
        for zi in 0..w.zones.len() {
            for e in w.zones[zi].ns.clone() {
                let h = n(&e.host);
                if let Some(hz) = w.zone_of_name(&h) {
                    let has_cname = w.data[hz].get(&key(&h)).map(|m| m.contains_key(&u16::from(RecordType::CNAME))).unwrap_or(false);
                    let ip = RData::A(A(server_ip(e.server)));
                    let dup = w.data[hz].get(&key(&h)).and_then(|m| m.get(&u16::from(RecordType::A))).map(|v| v.contains(&ip)).unwrap_or(false);
                    if !has_cname && !dup {
                        w.put(hz, &h, ip);
                    }
                }
            }
        }
        w
    }

    fn put(&mut self, zi: usize, owner: &Name, rd: RData) {
        self.data[zi].entry(key(owner)).or_default().entry(u16::from(rd.record_type())).or_default().push(rd);
    }

    /// the deepest zone of the world enclosing the name
    fn zone_of_name(&self, name: &Name) -> Option<usize> {
        let mut best: Option<usize> = None;
        for (i, o) in self.origins.iter().enumerate() {
            if o.zone_of(name) && best.map(|b| o.num_labels() > self.origins[b].num_labels()).unwrap_or(true) {
                best = Some(i);
            }
        }
        best
    }

    /// zones directly below `zi` (no other zone in between)
    fn children(&self, zi: usize) -> Vec<usize> {
        let mut v = Vec::new();
        for (ci, co) in self.origins.iter().enumerate() {
            if ci == zi || !self.origins[zi].zone_of(co) || *co == self.origins[zi] {
                continue;
            }
            // closest enclosing other zone must be zi
            let mut closest: Option<usize> = None;
            for (k, ko) in self.origins.iter().enumerate() {
                if k != ci && ko.zone_of(co) && ko != co && closest.map(|b| ko.num_labels() > self.origins[b].num_labels()).unwrap_or(true) {
                    closest = Some(k);
                }
            }
            if closest == Some(zi) {
                v.push(ci);
            }
        }
        v
    }

    /// is `owner` inside a zone the server was ever delegated?
    fn in_bailiwick_of(&self, server: usize, owner: &Name) -> bool {
        self.delegated[server].iter().any(|z| self.origins[*z].zone_of(owner))
    }

    /// honest response of `server` to the request
    fn answer(&self, server: usize, req: &Message) -> (Message, bool) {
        let mut m = Message::response(req.metadata.id, OpCode::Query);
        m.metadata.recursion_desired = req.metadata.recursion_desired;
        for q in &req.queries {
            m.add_query(q.clone());
        }
        let Some(q) = req.queries.first() else {
            m.metadata.response_code = ResponseCode::FormErr;
            return (m, false);
        };
        let qname = q.name.to_lowercase();
        let mut z: Option<usize> = None;
        for zi in &self.hosted[server] {
            if self.origins[*zi].zone_of(&qname) && z.map(|b| self.origins[*zi].num_labels() > self.origins[b].num_labels()).unwrap_or(true) {
                z = Some(*zi);
            }
        }
        let Some(z) = z else {
            m.metadata.response_code = ResponseCode::Refused;
            return (m, false);
        };
        // delegation below z?
        for c in self.children(z) {
            if self.origins[c].zone_of(&qname) {
                let co = self.origins[c].clone();
                for e in &self.zones[c].ns {
                    m.add_authority(Record::from_rdata(co.clone(), self.ttl, RData::NS(NS(n(&e.host)))));
                    match self.zones[c].glue {
                        0 => {
                            m.add_additional(Record::from_rdata(n(&e.host), self.ttl, RData::A(A(server_ip(e.server)))));
                        }
                        2 => {
                            m.add_additional(Record::from_rdata(n(&e.host), self.ttl, RData::A(A(DEAD_IP))));
                        }
                        _ => {}
                    }
                }
                return (m, true);
            }
        }
        m.metadata.authoritative = true;
        let zo = self.origins[z].clone();
        let soa = || Record::from_rdata(zo.clone(), self.ttl, self.data[z][&key(&zo)][&u16::from(RecordType::SOA)][0].clone());
        let at = self.data[z].get(&key(&qname));
        let qt = u16::from(q.query_type);
        let cn = u16::from(RecordType::CNAME);
        match at {
            Some(sets) if sets.contains_key(&qt) => {
                for rd in &sets[&qt] {
                    m.add_answer(Record::from_rdata(q.name.clone(), self.ttl, rd.clone()));
                }
                if q.query_type == RecordType::NS {
                    for rd in &sets[&qt] {
                        if let RData::NS(NS(h)) = rd {
                            if let Some(a) = self.data[z].get(&key(h)).and_then(|s| s.get(&u16::from(RecordType::A))) {
                                for rd in a {
                                    m.add_additional(Record::from_rdata(h.clone(), self.ttl, rd.clone()));
                                }
                            }
                        }
                    }
                }
            }
            Some(sets) if sets.contains_key(&cn) => {
                let mut owner = q.name.clone();
                let mut cur = sets[&cn][0].clone();
                let mut hops = 0;
                loop {
                    m.add_answer(Record::from_rdata(owner.clone(), self.ttl, cur.clone()));
                    let RData::CNAME(CNAME(t)) = &cur else { break };
                    hops += 1;
                    if !self.chase_in_zone || hops > 4 || !zo.zone_of(t) || self.children(z).iter().any(|c| self.origins[*c].zone_of(t)) {
                        break;
                    }
                    let Some(tsets) = self.data[z].get(&key(t)) else { break };
                    if let Some(v) = tsets.get(&qt) {
                        for rd in v {
                            m.add_answer(Record::from_rdata(t.clone(), self.ttl, rd.clone()));
                        }
                        break;
                    }
                    let Some(next) = tsets.get(&cn) else { break };
                    owner = t.clone();
                    cur = next[0].clone();
                }
            }
            Some(_) => {
                m.add_authority(soa());
            }
            None => {
                // empty non-terminal?
                let ent = self.data[z].keys().any(|k| n(k).num_labels() > qname.num_labels() && qname.zone_of(&n(k))) || self.children(z).iter().any(|c| qname.zone_of(&self.origins[*c]));
                if !ent {
                    m.metadata.response_code = ResponseCode::NXDomain;
                }
                m.add_authority(soa());
            }
        }
        (m, false)
    }

    /// the truth about (owner, type): the rdata the world holds
    fn truth(&self, owner: &Name, rt: RecordType) -> Vec<RData> {
        let Some(z) = self.zone_of_name(owner) else { return vec![] };
        let mut v: Vec<RData> = self.data[z].get(&key(owner)).and_then(|s| s.get(&u16::from(rt))).cloned().unwrap_or_default();
        // the parent side of a zone cut also holds the NS set (same data here)
        if rt == RecordType::NS && v.is_empty() {
            if let Some(zi) = self.origins.iter().position(|o| o == owner) {
                v = self.zones[zi].ns.iter().map(|e| RData::NS(NS(n(&e.host)))).collect();
            }
        }
        v
    }
}

fn key(name: &Name) -> String {
    name.to_lowercase().to_ascii()
}

// ------------------------------------------------------------------------------------------
// generation

fn gen_plan(seed: u64) -> Plan {
    let mut r = Rng::new(seed);
    let mut sim = SimConfig::from_seed(seed);
    sim.step_budget = 3_000_000;
    sim.max_sim_ns = 3_600_000_000_000;
    let plain = r.chance(1, 6);
    let n_servers = 2 + r.usize_below(5);
    // zone names: root, TLDs, second and third level
    let mut origins: Vec<String> = vec![".".into()];
    for t in ["a", "b"] {
        if r.chance(3, 4) || origins.len() == 1 {
            origins.push(format!("{t}."));
        }
    }
    let tlds: Vec<String> = origins[1..].to_vec();
    for t in &tlds {
        for s in ["x", "y"] {
            if r.chance(1, 2) {
                origins.push(format!("{s}.{t}"));
            }
        }
    }
    // a zone cut two labels below its parent zone (no zone at the label in between)
    if r.chance(1, 4) {
        origins.push(format!("x.m.{}", tlds[0]));
    }
    let seconds: Vec<String> = origins.iter().filter(|o| o.matches('.').count() == 2).cloned().collect();
    if let Some(s) = seconds.first() {
        if r.chance(1, 2) {
            origins.push(format!("s.{s}"));
        }
    }
    let mut zones: Vec<Zone> = Vec::new();
    for (zi, o) in origins.iter().enumerate() {
        let n_ns = if zi == 0 { 1 } else { 1 + r.usize_below(2) };
        let mut ns = Vec::new();
        for k in 0..n_ns {
            let server = if zi == 0 { 0 } else { r.usize_below(n_servers) };
            let place = if plain || zi == 0 { 0 } else { r.below(8) };
            let dotted = if o == "." { String::new() } else { o.clone() };
            let host = match place {
                0..=3 => format!("ns{k}.{dotted}"),
                4 => {
                    // in the parent zone
                    let parent = n(o).base_name().to_ascii();
                    let parent = if parent == "." { String::new() } else { parent };
                    format!("ns{k}-{zi}.{parent}")
                }
                5 | 6 => {
                    // in some other zone
                    let other = &origins[r.usize_below(origins.len())];
                    let other = if other == "." { String::new() } else { other.clone() };
                    format!("ns{k}-{zi}.{other}")
                }
                _ => o.clone(), // the zone's own name
            };
            let host = if host.is_empty() { "ns.".to_string() } else { host };
            ns.push(NsEntry { host, server, lame: !plain && zi != 0 && r.chance(1, 10) });
        }
        if ns.iter().all(|e| e.lame) && r.chance(3, 4) {
            ns[0].lame = false;
        }
        let glue = if plain || zi == 0 { 0 } else { *r.pick(&[0u8, 0, 0, 1, 1, 2]) };
        zones.push(Zone { origin: o.clone(), ns, glue, recs: vec![] });
    }
    // data: CNAME chains and loops across zones
    let n_c = r.usize_below(5);
    let cname_owner = |i: usize, origins: &Vec<String>, r: &mut Rng| {
        let o = &origins[1 + r.usize_below(origins.len() - 1)];
        format!("c{i}.{o}")
    };
    let owners: Vec<String> = (0..n_c).map(|i| cname_owner(i, &origins, &mut r)).collect();
    for (i, owner) in owners.iter().enumerate() {
        let target = match r.below(6) {
            0 | 1 => owners[(i + 1) % owners.len()].clone(), // chain, closing into a loop at the end
            2 => owners[r.usize_below(owners.len())].clone(),
            3 => format!("nx.{}", origins[1 + r.usize_below(origins.len() - 1)]),
            _ => format!("www.{}", origins[1 + r.usize_below(origins.len() - 1)]),
        };
        let zi = origins.iter().enumerate().filter(|(_, o)| n(o).zone_of(&n(owner))).max_by_key(|(_, o)| n(o).num_labels()).map(|(i, _)| i).unwrap_or(0);
        zones[zi].recs.push(DataRec { owner: owner.clone(), kind: RecKind::Cname(target) });
    }
    let mut servers: Vec<Srv> = (0..n_servers).map(|_| Srv { inject: vec![], fault: if plain { 0 } else { *r.pick(&[0u8, 0, 0, 0, 0, 0, 1, 2]) }, latency_ms: *r.pick(&[1u32, 3, 10, 40]) }).collect();
    servers[0].fault = 0;
    // hostile servers
    let mut plan = Plan {
        sim,
        zones,
        servers,
        recursion_limit: *r.pick(&[2u8, 3, 4, 6, 8, 12, 24]),
        ns_recursion_limit: *r.pick(&[2u8, 3, 4, 6, 8, 12, 24]),
        relaxed_qmin: r.chance(1, 3),
        small_caches: r.chance(1, 4),
        deny_servers: vec![],
        deny_answer_zone: None,
        chase_in_zone: r.chance(1, 2),
        plain,
        queries: vec![],
        concurrent: r.chance(1, 2),
        ttl: *r.pick(&[300u32, 300, 5, 1, 0]),
        gap_ms: *r.pick(&[0u64, 0, 1500, 7000]),
        truncate_udp: vec![],
        case_randomization: r.chance(1, 5),
    };
    if plain {
        plan.recursion_limit = 24;
        plan.ns_recursion_limit = 24;
    }
    let world = World::build(&plan);
    let mut names: Vec<(String, u8)> = Vec::new();
    for (zi, z) in plan.zones.iter().enumerate() {
        if zi != 0 {
            names.push((format!("www.{}", z.origin), 0));
            names.push((z.origin.clone(), 1));
        }
        for e in &z.ns {
            names.push((e.host.clone(), 0));
        }
        for rec in &z.recs {
            names.push((rec.owner.clone(), 2));
        }
    }
    if !plain {
        let n_hostile = r.usize_below(3);
        for _ in 0..n_hostile {
            let s = 1 + r.usize_below(n_servers - 1);
            if world.delegated[s].contains(&0) || world.hosted[s].is_empty() {
                continue;
            }
            let n_inj = 1 + r.usize_below(3);
            for _ in 0..n_inj {
                let (owner, class) = names[r.usize_below(names.len())].clone();
                if world.in_bailiwick_of(s, &n(&owner)) {
                    continue;
                }
                let kind = match class {
                    1 => *r.pick(&[1u8, 1, 3, 0]),
                    2 => *r.pick(&[0u8, 2]),
                    _ => *r.pick(&[0u8, 0, 0, 2]),
                };
                plan.servers[s].inject.push(Inject { owner, kind, section: r.below(3) as u8, on: r.below(4) as u8 });
            }
        }
        if r.chance(1, 6) {
            let s = 1 + r.usize_below(n_servers - 1);
            plan.deny_servers.push(s);
        }
        if r.chance(1, 5) {
            plan.truncate_udp.push(r.usize_below(n_servers));
        }
        if r.chance(1, 8) {
            plan.deny_answer_zone = Some(1 + r.usize_below(plan.zones.len() - 1));
        }
    }
    // questions
    let nq = 1 + r.usize_below(4);
    for _ in 0..nq {
        let q = match r.below(10) {
            0..=5 => {
                let (nm, class) = names[r.usize_below(names.len())].clone();
                (nm, if class == 1 { *r.pick(&[0u8, 2, 2]) } else { *r.pick(&[0u8, 0, 0, 1, 3]) })
            }
            6 => (format!("nx.{}", plan.zones[r.usize_below(plan.zones.len())].origin).replace("..", "."), 0),
            7 => (format!("deep.er.nx.{}", plan.zones[r.usize_below(plan.zones.len())].origin).replace("..", "."), 0),
            _ => {
                // a victim of some injection
                let inj: Vec<&Inject> = plan.servers.iter().flat_map(|s| s.inject.iter()).collect();
                if inj.is_empty() {
                    (format!("www.{}", plan.zones[plan.zones.len() - 1].origin), 0)
                } else {
                    let i = inj[r.usize_below(inj.len())];
                    (i.owner.clone(), if i.kind == 1 || i.kind == 3 { 2 } else { 0 })
                }
            }
        };
        plan.queries.push(q);
    }
    plan
}

// ------------------------------------------------------------------------------------------

pub struct RecursorPart;

impl Part for RecursorPart {
    fn name(&self) -> &'static str {
        "recursor"
    }
    fn runs(&self, tier: Tier) -> u64 {
        match tier {
            Tier::Quick => 6_000,
            Tier::Thorough => 300_000,
        }
    }
    fn block(&self, _t: Tier) -> u64 {
        16
    }
    fn gen(&self, seed: u64, _tier: Tier) -> Value {
        serde_json::to_value(gen_plan(seed)).unwrap()
    }
    fn run(&self, plan: &Value, trace: bool) -> Report {
        let mut p: Plan = serde_json::from_value(plan.clone()).expect("plan");
        p.sim.trace = trace;
        let hostile = p.servers.iter().filter(|s| !s.inject.is_empty()).count() as u64;
        let mut sig = mix(p.zones.len() as u64 ^ (p.servers.len() as u64) << 4 ^ hostile << 8 ^ (p.recursion_limit as u64) << 12 ^ (p.ns_recursion_limit as u64) << 20 ^ (p.relaxed_qmin as u64) << 28 ^ (p.concurrent as u64) << 29 ^ (p.plain as u64) << 30 ^ (p.ttl as u64) << 32 ^ (p.gap_ms) << 44 ^ (p.truncate_udp.len() as u64) << 58 ^ (p.case_randomization as u64) << 60);
        for z in &p.zones {
            sig = mix(sig ^ z.glue as u64 ^ (z.ns.len() as u64) << 2 ^ (z.ns.iter().filter(|e| e.lame).count() as u64) << 4 ^ (z.recs.len() as u64) << 6 ^ mix(z.origin.len() as u64));
        }
        for s in &p.servers {
            for i in &s.inject {
                sig = mix(sig ^ i.kind as u64 ^ (i.section as u64) << 2 ^ (i.on as u64) << 4);
            }
            sig = mix(sig ^ s.fault as u64);
        }
        let nontrivial = !p.plain;
        let p2 = p.clone();
        let out = exec::run(&p.sim, async move { scenario(p2).await });
        finish(out, sig, nontrivial, "C19.no-termination")
    }
    fn shrink(&self, plan: &Value) -> Vec<Value> {
        let Ok(p) = serde_json::from_value::<Plan>(plan.clone()) else { return vec![] };
        let mut out: Vec<Plan> = Vec::new();
        if p.queries.len() > 1 {
            for i in 0..p.queries.len() {
                let mut q = p.clone();
                q.queries.remove(i);
                out.push(q);
            }
        }
        for s in 0..p.servers.len() {
            for i in 0..p.servers[s].inject.len() {
                let mut q = p.clone();
                q.servers[s].inject.remove(i);
                out.push(q);
            }
            if p.servers[s].fault != 0 {
                let mut q = p.clone();
                q.servers[s].fault = 0;
                out.push(q);
            }
        }
        // drop a leaf zone
        for zi in (1..p.zones.len()).rev() {
            let o = n(&p.zones[zi].origin);
            let has_child = p.zones.iter().enumerate().any(|(k, z)| k != zi && o.zone_of(&n(&z.origin)));
            if !has_child {
                let mut q = p.clone();
                q.zones.remove(zi);
                if let Some(d) = q.deny_answer_zone {
                    if d >= q.zones.len() {
                        q.deny_answer_zone = None;
                    }
                }
                out.push(q);
            }
        }
        for zi in 0..p.zones.len() {
            if !p.zones[zi].recs.is_empty() {
                let mut q = p.clone();
                q.zones[zi].recs.pop();
                out.push(q);
            }
            if p.zones[zi].ns.len() > 1 {
                let mut q = p.clone();
                q.zones[zi].ns.pop();
                out.push(q);
            }
            if p.zones[zi].glue != 0 {
                let mut q = p.clone();
                q.zones[zi].glue = 0;
                out.push(q);
            }
            for k in 0..p.zones[zi].ns.len() {
                if p.zones[zi].ns[k].lame {
                    let mut q = p.clone();
                    q.zones[zi].ns[k].lame = false;
                    out.push(q);
                }
            }
        }
        if !p.deny_servers.is_empty() {
            let mut q = p.clone();
            q.deny_servers.clear();
            out.push(q);
        }
        if p.deny_answer_zone.is_some() {
            let mut q = p.clone();
            q.deny_answer_zone = None;
            out.push(q);
        }
        if p.concurrent {
            let mut q = p.clone();
            q.concurrent = false;
            out.push(q);
        }
        if p.small_caches {
            let mut q = p.clone();
            q.small_caches = false;
            out.push(q);
        }
        if p.gap_ms != 0 {
            let mut q = p.clone();
            q.gap_ms = 0;
            out.push(q);
        }
        if p.ttl != 300 {
            let mut q = p.clone();
            q.ttl = 300;
            out.push(q);
        }
        if !p.truncate_udp.is_empty() {
            let mut q = p.clone();
            q.truncate_udp.clear();
            out.push(q);
        }
        if p.case_randomization {
            let mut q = p.clone();
            q.case_randomization = false;
            out.push(q);
        }
        if p.sim.policy != hsim::SchedPolicy::Fifo {
            let mut q = p.clone();
            q.sim.policy = hsim::SchedPolicy::Fifo;
            out.push(q);
        }
        out.into_iter().map(|q| serde_json::to_value(q).unwrap()).collect()
    }
    fn describe(&self) -> Describe {
        Describe {
            rule: "plan = (internet: root + TLDs {a,b} + second level {x,y} + optional two-label cut and third level, 1-2 NS per zone on 2-6 servers, NS host names in the zone / the parent / another zone / equal to the zone, glue present / absent / dead, lame entries, CNAME chains and loops across zones; per server: silent / SERVFAIL fault, latency, and 0-3 injected out-of-bailiwick records (A, NS+glue, CNAME, NS to an in-zone attacker host) into a chosen section of every / referral / authoritative response; recursor limits 2-24, strict/relaxed qname minimisation, tiny caches, denied server and answer networks; 1-4 questions sequential or concurrent, then the victims again with every server honest); non-trivial = not a plain world; distinct by world shape, injections, limits and faults".into(),
            real: vec!["hickory_resolver::recursor::Recursor / RecursorDnsHandle (resolve, ns_pool_for_name, lookup, resolve_cnames, append_ips_from_lookup, caches)", "NameServerPool / NameServer / DnsExchange / UdpClientStream / TcpClientStream", "AccessControlSet filters"],
            stub: vec!["SimNet sockets", "scripted authoritative servers answering from the generated world (RFC 1034 4.3.2 subset: referral, answer, CNAME, NODATA, NXDOMAIN)"],
            assumptions: vec!["a hostile server lies only outside its bailiwick (owners outside every zone it hosts or is listed for), so every returned record must be world truth", "availability is demanded only in plain worlds"],
        }
    }
}

#[derive(Default)]
struct NetLog {
    /// destination ip -> number of queries received
    contacted: BTreeMap<IpAddr, u64>,
    queries: u64,
}

async fn scenario(p: Plan) {
    net::configure(MS / 2, MS / 2);
    let world = Rc::new(World::build(&p));
    let log: Rc<RefCell<NetLog>> = Rc::new(RefCell::new(NetLog::default()));
    let honest_phase = Rc::new(std::cell::Cell::new(false));

    // ---- the servers ----------------------------------------------------------------------------
    let respond = {
        let world = world.clone();
        let p = p.clone();
        let honest_phase = honest_phase.clone();
        Rc::new(move |k: usize, req: &Message| -> Option<Vec<u8>> {
            let srv = &p.servers[k];
            if srv.fault == 2 {
                let mut m = Message::response(req.metadata.id, OpCode::Query);
                for q in &req.queries {
                    m.add_query(q.clone());
                }
                m.metadata.response_code = ResponseCode::ServFail;
                return m.to_vec().ok();
            }
            let (mut m, referral) = world.answer(k, req);
            if !honest_phase.get() {
                for (j, inj) in srv.inject.iter().enumerate() {
                    let ns_addr_answer = req.queries.first().map(|q| matches!(q.query_type, RecordType::A | RecordType::AAAA) && world.ns_hosts.contains(&key(&q.name))).unwrap_or(false);
                    if (inj.on == 3) != ns_addr_answer || (inj.on == 1 && !referral) || (inj.on == 2 && (referral || !m.metadata.authoritative)) {
                        continue;
                    }
                    exec::count(&format!("fault.inject.kind{}.section{}", inj.kind, inj.section));
                    let owner = n(&inj.owner);
                    let mut recs: Vec<Record> = Vec::new();
                    let mut extra: Vec<Record> = Vec::new();
                    match inj.kind {
                        0 => recs.push(Record::from_rdata(owner, p.ttl, RData::A(A(marker_ip(k, j))))),
                        1 => {
                            let host = n(&format!("ns{j}.evil{k}.attacker."));
                            recs.push(Record::from_rdata(owner, p.ttl, RData::NS(NS(host.clone()))));
                            extra.push(Record::from_rdata(host, p.ttl, RData::A(A(marker_ip(k, j)))));
                        }
                        2 => recs.push(Record::from_rdata(owner, p.ttl, RData::CNAME(CNAME(n(&format!("pwned{j}.evil{k}.attacker.")))))),
                        _ => {
                            // attacker host inside the injector's own (first hosted) zone
                            let home = world.hosted[k].iter().next().map(|z| world.zones[*z].origin.clone()).unwrap_or_else(|| ".".into());
                            let home = if home == "." { String::new() } else { home };
                            let host = n(&format!("evilns{j}.{home}"));
                            recs.push(Record::from_rdata(owner, p.ttl, RData::NS(NS(host.clone()))));
                            extra.push(Record::from_rdata(host, p.ttl, RData::A(A(tainted_ip(k, j)))));
                        }
                    }
                    for r in recs {
                        match inj.section {
                            0 => {
                                m.add_answer(r);
                            }
                            1 => {
                                m.add_authority(r);
                            }
                            _ => {
                                m.add_additional(r);
                            }
                        }
                    }
                    for r in extra {
                        m.add_additional(r);
                    }
                }
            }
            m.to_vec().ok()
        })
    };
    let mut all_ips: Vec<(Ipv4Addr, Option<usize>)> = (0..p.servers.len()).map(|k| (server_ip(k), Some(k))).collect();
    for (k, s) in p.servers.iter().enumerate() {
        for j in 0..s.inject.len() {
            all_ips.push((marker_ip(k, j), None));
            all_ips.push((tainted_ip(k, j), None));
        }
    }
    for (ip, k) in all_ips.iter().cloned() {
        let addr = SocketAddr::new(IpAddr::V4(ip), 53);
        let evil = move |req: &Message| -> Option<Vec<u8>> {
            // a contacted attacker address answers everything with its own data
            let mut m = Message::response(req.metadata.id, OpCode::Query);
            m.metadata.authoritative = true;
            for q in &req.queries {
                m.add_query(q.clone());
                if q.query_type == RecordType::A {
                    m.add_answer(Record::from_rdata(q.name.clone(), 300, RData::A(A(PWNED_IP))));
                }
            }
            m.to_vec().ok()
        };
        {
            let log = log.clone();
            let respond = respond.clone();
            let fault = k.map(|k| p.servers[k].fault).unwrap_or(0);
            let lat = k.map(|k| p.servers[k].latency_ms).unwrap_or(1) as u64;
            let truncating = k.map(|k| p.truncate_udp.contains(&k)).unwrap_or(false);
            net::udp_node(addr, move |dg| {
                let Ok(req) = Message::from_vec(&dg.bytes) else { return vec![] };
                {
                    let mut l = log.borrow_mut();
                    *l.contacted.entry(dg.dst.ip()).or_default() += 1;
                    l.queries += 1;
                }
                if let Some(q) = req.queries.first() {
                    exec::log(&format!("udp query to {} : {} {}", dg.dst.ip(), q.name, q.query_type));
                }
                if fault == 1 {
                    exec::count("fault.server_silent");
                    return vec![];
                }
                let bytes = match k {
                    Some(k) if truncating => {
                        exec::count("fault.udp_truncated");
                        let mut m = Message::response(req.metadata.id, OpCode::Query);
                        for q in &req.queries {
                            m.add_query(q.clone());
                        }
                        m.metadata.truncation = true;
                        let _ = k;
                        m.to_vec().ok()
                    }
                    Some(k) => respond(k, &req),
                    None => evil(&req),
                };
                match bytes {
                    Some(bytes) => vec![UdpOut { delay_ns: lat * MS, from: dg.dst, to: dg.src, bytes }],
                    None => vec![],
                }
            });
        }
        {
            let log = log.clone();
            let respond = respond.clone();
            net::tcp_listen(addr, move |mut tcp, _peer| {
                let log = log.clone();
                let respond = respond.clone();
                exec::spawn("srv-tcp", async move {
                    let mut hdr = [0u8; 2];
                    loop {
                        if tcp.read_exact(&mut hdr).await.is_err() {
                            break;
                        }
                        let mut body = vec![0u8; u16::from_be_bytes(hdr) as usize];
                        if tcp.read_exact(&mut body).await.is_err() {
                            break;
                        }
                        let Ok(req) = Message::from_vec(&body) else { break };
                        {
                            let mut l = log.borrow_mut();
                            *l.contacted.entry(IpAddr::V4(ip)).or_default() += 1;
                            l.queries += 1;
                        }
                        let bytes = match k {
                            Some(k) => respond(k, &req),
                            None => evil(&req),
                        };
                        let Some(b) = bytes else { continue };
                        let mut frame = (b.len() as u16).to_be_bytes().to_vec();
                        frame.extend_from_slice(&b);
                        if tcp.write_all(&frame).await.is_err() {
                            break;
                        }
                    }
                    std::future::pending::<()>().await;
                    drop(tcp);
                });
            });
        }
    }
    {
        let servers = p.servers.clone();
        let known: Vec<Ipv4Addr> = all_ips.iter().map(|(ip, _)| *ip).collect();
        net::set_connect_policy(move |_c, dst, _nth| {
            let IpAddr::V4(d) = dst.ip() else { return ConnectVerdict::Refuse { after_ns: MS } };
            if !known.contains(&d) {
                return ConnectVerdict::Refuse { after_ns: MS };
            }
            for (k, s) in servers.iter().enumerate() {
                if d == server_ip(k) && s.fault == 1 {
                    return ConnectVerdict::Refuse { after_ns: MS };
                }
            }
            ConnectVerdict::Accept { rtt_ns: MS, c2s: PipePlan { latency_ns: MS / 2, ..Default::default() }, s2c: PipePlan { latency_ns: MS / 2, ..Default::default() } }
        });
    }

    // ---- the recursor ---------------------------------------------------------------------------
    let mut opts = RecursorOptions::default();
    opts.recursion_limit = p.recursion_limit;
    opts.ns_recursion_limit = p.ns_recursion_limit;
    opts.case_randomization = p.case_randomization;
    opts.qname_minimization = if p.relaxed_qmin { QNameMinimization::Relaxed } else { QNameMinimization::Strict };
    if p.small_caches {
        opts.ns_cache_size = 2;
        opts.response_cache_size = 4;
    }
    opts.deny_server = p.deny_servers.iter().filter(|k| **k < p.servers.len()).map(|k| IpNet::new(IpAddr::V4(server_ip(*k)), 32).unwrap()).collect();
    let denied_answer: Option<Ipv4Addr> = p.deny_answer_zone.filter(|z| *z < p.zones.len()).map(|z| truth_ip(z, 0));
    if let Some(ip) = denied_answer {
        opts.deny_answers = vec![IpNet::new(IpAddr::V4(ip), 32).unwrap()];
    }
    let roots: Vec<IpAddr> = p.zones[0].ns.iter().map(|e| IpAddr::V4(server_ip(e.server))).collect();
    let recursor = match Recursor::with_options(&roots, opts, SimProvider::new(CLIENT)) {
        Ok(r) => Rc::new(r),
        Err(e) => {
            exec::violate("C19.harness", "", format!("recursor construction: {e}"));
            return;
        }
    };

    let denied_servers: Vec<IpAddr> = p.deny_servers.iter().filter(|k| **k < p.servers.len() && !roots.contains(&IpAddr::V4(server_ip(**k)))).map(|k| IpAddr::V4(server_ip(*k))).collect();

    // per resolution: queries spent
    let poisoned = Rc::new(std::cell::Cell::new(false));
    let ask = {
        let poisoned = poisoned.clone();
        let recursor = recursor.clone();
        let world = world.clone();
        let log = log.clone();
        let p = p.clone();
        let denied_servers = denied_servers.clone();
        Rc::new(move |name: String, t: u8, phase: u8| {
            let poisoned = poisoned.clone();
            let recursor = recursor.clone();
            let world = world.clone();
            let log = log.clone();
            let p = p.clone();
            let denied_servers = denied_servers.clone();
            async move {
                if poisoned.get() {
                    return;
                }
                let q = Query::new(n(&name), qtype_of(t));
                let before = log.borrow().queries;
                let r = recursor.resolve(q.clone(), Instant::now(), false).await;
                let spent = log.borrow().queries - before;
                exec::log(&format!("resolve {} {} phase {phase}: {} upstream queries, {}", q.name, q.query_type, spent, match &r { Ok(m) => format!("Ok an={} ns={} ar={}", m.answers.len(), m.authorities.len(), m.additionals.len()), Err(e) => format!("Err {e}") }));
                exec::ilog(if r.is_ok() { "ok" } else { "err" });
                // (c) bounded work (concurrent resolutions share the counter: only a ceiling)
                let cap = 4000u64;
                if spent > cap {
                    if exec::violate("C19.query-bound", "", format!("{} {}: {spent} upstream queries for one resolution (limits {} / {})", q.name, q.query_type, p.recursion_limit, p.ns_recursion_limit)) {
                        return;
                    }
                }
                // (a)/(b) on the network
                for (ip, cnt) in log.borrow().contacted.iter() {
                    if let IpAddr::V4(v4) = ip {
                        if is_marker(*v4) || is_tainted(*v4) {
                            let who = describe_injection(&p, *v4);
                            if exec::violate("C19.poison-contacted", &who.0, format!("address {ip} announced only by an out-of-bailiwick record was contacted {cnt} times as a name server; injection: {}", who.1)) {
                                return;
                            }
                            // a listed finding: the attacker address has been talked to, what it
                            // said is now in the caches — nothing after this point says anything
                            // about a *different* defect, the rest of the run is not judged
                            exec::count("probe.run_abandoned_after_known_poisoning");
                            poisoned.set(true);
                            return;
                        }
                    }
                    if denied_servers.contains(ip) {
                        if exec::violate("C19.denied-server-contacted", "", format!("{ip} is in deny_server but received {cnt} queries")) {
                            return;
                        }
                    }
                }
                match &r {
                    Ok(m) => {
                        exec::count(if phase == 1 { "probe.resolve_ok" } else { "probe.phase2_ok" });
                        for (si, rec) in m.answers.iter().map(|r| (0, r)).chain(m.authorities.iter().map(|r| (1, r))).chain(m.additionals.iter().map(|r| (2, r))) {
                            let bad_marker = match &rec.data {
                                RData::A(A(ip)) => is_marker(*ip),
                                RData::NS(NS(h)) => n("attacker.").zone_of(h) || h.to_ascii().starts_with("evilns"),
                                RData::CNAME(CNAME(h)) => n("attacker.").zone_of(h),
                                _ => false,
                            };
                            if bad_marker {
                                let who = match &rec.data {
                                    RData::A(A(ip)) => describe_injection(&p, *ip),
                                    _ => (format!("kind-ns-or-cname:section{si}"), format!("{rec}")),
                                };
                                let inv = if phase == 1 { "C19.poison-returned" } else { "C19.poison-cached" };
                                if exec::violate(inv, &format!("{}:in-section{si}", who.0), format!("{} {} (phase {phase}): returned {rec}, injected out of bailiwick: {}", q.name, q.query_type, who.1)) {
                                    return;
                                }
                                continue;
                            }
                            // everything else must be world truth
                            let truthful = match rec.record_type() {
                                RecordType::A | RecordType::NS | RecordType::CNAME => {
                                    let t = world.truth(&rec.name, rec.record_type());
                                    t.contains(&rec.data) || matches!(&rec.data, RData::A(A(ip)) if is_tainted(*ip) || *ip == DEAD_IP)
                                }
                                _ => true,
                            };
                            if !truthful {
                                if exec::violate("C19.untrue-record", &format!("{}", rec.record_type()), format!("{} {}: returned {rec}, which no server of the world holds", q.name, q.query_type)) {
                                    return;
                                }
                            }
                            if let (RData::A(A(ip)), Some(d)) = (&rec.data, denied_answer_of(&p)) {
                                if *ip == d {
                                    if exec::violate("C19.denied-answer-returned", "", format!("{} {}: returned {rec} although {d} is in deny_answers", q.name, q.query_type)) {
                                        return;
                                    }
                                }
                            }
                        }
                        // (d) plain worlds: the answer is the truth
                        if p.plain {
                            let want = final_truth(&world, &q);
                            let got: BTreeSet<String> = m.answers.iter().filter(|r| r.record_type() == q.query_type).map(|r| format!("{}", r.data)).collect();
                            if let Some(want) = want {
                                if !want.is_empty() && got != want {
                                    if exec::violate("C19.plain-wrong-answer", "", format!("{} {}: got {got:?}, the world says {want:?}", q.name, q.query_type)) {
                                        return;
                                    }
                                }
                            }
                        }
                    }
                    Err(e) => {
                        exec::count(if phase == 1 { "probe.resolve_err" } else { "probe.phase2_err" });
                        if p.plain {
                            if let Some(want) = final_truth(&world, &q) {
                                if !want.is_empty() {
                                    if exec::violate("C19.plain-unavailable", "", format!("{} {}: {e}, although every zone has in-zone name servers with glue and no server is faulty; the world says {want:?}", q.name, q.query_type)) {
                                        return;
                                    }
                                }
                            }
                        }
                    }
                }
                exec::count(&format!("probe.queries_per_resolution.le{}", bucket(spent)));
            }
        })
    };

    // ---- phase 1: the questions -----------------------------------------------------------------
    let limit = Duration::from_secs(1800);
    if p.concurrent {
        let mut joins = Vec::new();
        for (i, (name, t)) in p.queries.iter().cloned().enumerate() {
            let ask = ask.clone();
            joins.push(exec::spawn(&format!("q{i}"), async move { ask(name, t, 1).await }));
        }
        for j in joins {
            if exec::timeout(limit, j).await.is_err() {
                exec::violate("C19.no-termination", "pending", "a resolution was still pending after 30 simulated minutes".into());
                return;
            }
        }
    } else {
        for (name, t) in p.queries.iter().cloned() {
            if p.gap_ms != 0 {
                exec::sleep_ns(p.gap_ms * MS).await;
            }
            if exec::timeout(limit, ask(name, t, 1)).await.is_err() {
                exec::violate("C19.no-termination", "pending", "a resolution was still pending after 30 simulated minutes".into());
                return;
            }
        }
    }
    // ---- phase 2: every server honest, ask for the victims --------------------------------------
    honest_phase.set(true);
    if p.gap_ms != 0 {
        exec::sleep_ns(p.gap_ms * MS).await;
    }
    let mut victims: Vec<(String, u8)> = Vec::new();
    for s in &p.servers {
        for i in &s.inject {
            let t = if i.kind == 1 || i.kind == 3 { 2 } else { 0 };
            if !victims.contains(&(i.owner.clone(), t)) {
                victims.push((i.owner.clone(), t));
            }
        }
    }
    for (name, t) in victims.into_iter().take(4) {
        if exec::timeout(limit, ask(name, t, 2)).await.is_err() {
            exec::violate("C19.no-termination", "pending", "a resolution was still pending after 30 simulated minutes".into());
            return;
        }
    }
    exec::count(&format!("probe.total_queries.le{}", bucket(log.borrow().queries)));
}

fn bucket(n: u64) -> u64 {
    for b in [0u64, 4, 16, 64, 256, 1024, 4096] {
        if n <= b {
            return b;
        }
    }
    u64::MAX
}

fn denied_answer_of(p: &Plan) -> Option<Ipv4Addr> {
    p.deny_answer_zone.filter(|z| *z < p.zones.len()).map(|z| truth_ip(z, 0))
}

fn describe_injection(p: &Plan, ip: Ipv4Addr) -> (String, String) {
    let o = ip.octets();
    let (k, j) = (o[2] as usize, o[3] as usize - 1);
    match p.servers.get(k).and_then(|s| s.inject.get(j)) {
        Some(i) => (format!("kind{}:section{}{}", i.kind, i.section, if i.on == 3 { ":on-ns-address-response" } else { "" }), format!("server {k} {i:?}")),
        None => ("unknown".into(), format!("{ip}")),
    }
}

/// the final answer set for the question following CNAMEs through the world; None = no opinion
/// (loop, dangling, too long)
fn final_truth(w: &World, q: &Query) -> Option<BTreeSet<String>> {
    let mut name = q.name.to_lowercase();
    // (every alias hop costs the recursor its depth budget once per label walked: only short
    // chains are guaranteed to fit the limit of 24 used in plain worlds)
    for _ in 0..3 {
        let direct = w.truth(&name, q.query_type);
        if !direct.is_empty() {
            return Some(direct.iter().map(|d| format!("{d}")).collect());
        }
        if q.query_type == RecordType::CNAME {
            return Some(BTreeSet::new());
        }
        match w.truth(&name, RecordType::CNAME).first() {
            Some(RData::CNAME(CNAME(t))) => name = t.to_lowercase(),
            _ => return Some(BTreeSet::new()),
        }
    }
    None
}


// ------------------------------------------------------------------------------------------
// alias chasing in the stub resolver

#[derive(Serialize, Deserialize, Clone, Debug)]
struct AliasPlan {
    sim: SimConfig,
    /// aliases a0 -> a1 -> ... -> a<len>; a<len> is the end of the chain
    len: u8,
    /// the last alias points back at a<loop_to> instead of at the end (a loop)
    loop_to: Option<u8>,
    /// what the end of the chain holds: 0 an A record, 1 nothing (NODATA), 2 does not exist
    end: u8,
    /// how many hops of the chain the upstream puts into one response (1-3)
    hops_per_response: u8,
    /// identical concurrent lookups
    callers: u8,
    preserve_intermediates: bool,
    cache_size: u8,
    /// a second round of the same lookup (served from the cache or not)
    again: bool,
}

pub struct AliasPart;

impl Part for AliasPart {
    fn name(&self) -> &'static str {
        "alias"
    }
    fn runs(&self, tier: Tier) -> u64 {
        match tier {
            Tier::Quick => 4_000,
            Tier::Thorough => 200_000,
        }
    }
    fn block(&self, _t: Tier) -> u64 {
        32
    }
    fn gen(&self, seed: u64, _tier: Tier) -> Value {
        let mut r = Rng::new(seed);
        let mut sim = SimConfig::from_seed(seed);
        sim.step_budget = 2_000_000;
        sim.max_sim_ns = 3_600_000_000_000;
        let len = r.below(14) as u8;
        let loop_to = if len > 0 && r.chance(1, 3) { Some(r.below(len as u64) as u8) } else { None };
        serde_json::to_value(AliasPlan { sim, len, loop_to, end: r.below(3) as u8, hops_per_response: 1 + r.below(3) as u8, callers: 1 + r.below(3) as u8, preserve_intermediates: r.chance(1, 2), cache_size: *r.pick(&[0u8, 1, 32]), again: r.chance(1, 2) }).unwrap()
    }
    fn run(&self, plan: &Value, trace: bool) -> Report {
        let mut p: AliasPlan = serde_json::from_value(plan.clone()).expect("plan");
        p.sim.trace = trace;
        let sig = mix(p.len as u64 ^ (p.loop_to.map(|l| l as u64 + 1).unwrap_or(0)) << 8 ^ (p.end as u64) << 16 ^ (p.hops_per_response as u64) << 20 ^ (p.callers as u64) << 24 ^ (p.preserve_intermediates as u64) << 28 ^ (p.cache_size as u64) << 32 ^ (p.again as u64) << 40);
        let nontrivial = p.len > 0;
        let p2 = p.clone();
        let out = exec::run(&p.sim, async move { alias_scenario(p2).await });
        finish(out, sig, nontrivial, "C19.no-termination")
    }
    fn shrink(&self, plan: &Value) -> Vec<Value> {
        let Ok(p) = serde_json::from_value::<AliasPlan>(plan.clone()) else { return vec![] };
        let mut out = Vec::new();
        if p.len > 0 {
            let mut q = p.clone();
            q.len -= 1;
            if let Some(l) = q.loop_to {
                if l >= q.len {
                    q.loop_to = if q.len > 0 { Some(q.len - 1) } else { None };
                }
            }
            out.push(q);
        }
        if p.callers > 1 {
            let mut q = p.clone();
            q.callers = 1;
            out.push(q);
        }
        if p.again {
            let mut q = p.clone();
            q.again = false;
            out.push(q);
        }
        if p.hops_per_response > 1 {
            let mut q = p.clone();
            q.hops_per_response = 1;
            out.push(q);
        }
        if p.sim.policy != hsim::SchedPolicy::Fifo {
            let mut q = p.clone();
            q.sim.policy = hsim::SchedPolicy::Fifo;
            out.push(q);
        }
        out.into_iter().map(|q| serde_json::to_value(q).unwrap()).collect()
    }
    fn describe(&self) -> Describe {
        Describe {
            rule: "plan = (alias chain a0 -> ... -> a<len>, len 0-13, optionally closed into a loop, ending in an address / NODATA / NXDOMAIN; the upstream recursive server puts 1-3 hops into each response; 1-3 identical concurrent lookups, preserve_intermediates, cache size 0/1/32, optional second round); non-trivial = at least one alias; distinct by all of these".into(),
            real: vec!["hickory_resolver::Resolver / LookupFuture / CachingClient::inner_lookup (alias chasing, DepthTracker)", "ResponseCache", "NameServerPool down to UdpClientStream"],
            stub: vec!["SimNet sockets", "one scripted upstream server answering alias chains"],
            assumptions: vec!["success is demanded only for chains that need at most 5 follow-up queries (the limit is 8 nested lookups)"],
        }
    }
}

async fn alias_scenario(p: AliasPlan) {
    use hickory_resolver::config::{NameServerConfig, ResolverConfig};
    net::configure(MS / 2, MS / 2);
    let queries = Rc::new(std::cell::Cell::new(0u64));
    let alias = |i: u8| n(&format!("a{i}.alias."));
    let target_of = {
        let p = p.clone();
        move |i: u8| -> Option<u8> {
            if i >= p.len {
                return None;
            }
            if i + 1 == p.len {
                if let Some(l) = p.loop_to {
                    return Some(l);
                }
            }
            Some(i + 1)
        }
    };
    let end_ip = Ipv4Addr::new(46, 9, 9, 9);
    let addr = SocketAddr::new(IpAddr::V4(server_ip(0)), 53);
    {
        let queries = queries.clone();
        let p = p.clone();
        let target_of = target_of.clone();
        net::udp_node(addr, move |dg| {
            let Ok(req) = Message::from_vec(&dg.bytes) else { return vec![] };
            queries.set(queries.get() + 1);
            let mut m = Message::response(req.metadata.id, OpCode::Query);
            m.metadata.recursion_desired = req.metadata.recursion_desired;
            m.metadata.recursion_available = true;
            let Some(q) = req.queries.first() else { return vec![] };
            m.add_query(q.clone());
            exec::log(&format!("upstream query {} {}", q.name, q.query_type));
            let idx = q.name.to_ascii().strip_prefix('a').and_then(|r| r.split('.').next().map(|d| d.to_string())).and_then(|d| d.parse::<u8>().ok());
            let soa = Record::from_rdata(n("alias."), 60, RData::SOA(SOA::new(n("ns.alias."), n("admin.alias."), 1, 60, 60, 60, 60)));
            match idx {
                Some(mut i) if i <= p.len && q.query_type == RecordType::A => {
                    let mut hops = 0;
                    loop {
                        match target_of(i) {
                            Some(t) if hops < p.hops_per_response => {
                                m.add_answer(Record::from_rdata(n(&format!("a{i}.alias.")), 60, RData::CNAME(CNAME(n(&format!("a{t}.alias."))))));
                                hops += 1;
                                i = t;
                            }
                            Some(_) => break,
                            None => {
                                // the end of the chain
                                match p.end {
                                    0 => {
                                        m.add_answer(Record::from_rdata(n(&format!("a{i}.alias.")), 60, RData::A(A(end_ip))));
                                    }
                                    1 => {
                                        m.add_authority(soa.clone());
                                    }
                                    _ => {
                                        if hops == 0 {
                                            m.metadata.response_code = ResponseCode::NXDomain;
                                        }
                                        m.add_authority(soa.clone());
                                    }
                                }
                                break;
                            }
                        }
                    }
                }
                _ => {
                    m.metadata.response_code = ResponseCode::NXDomain;
                    m.add_authority(soa);
                }
            }
            match m.to_vec() {
                Ok(bytes) => vec![UdpOut { delay_ns: 2 * MS, from: dg.dst, to: dg.src, bytes }],
                Err(_) => vec![],
            }
        });
    }
    net::set_connect_policy(move |_c, _dst, _nth| ConnectVerdict::Refuse { after_ns: MS });

    let mut cfg = ResolverConfig::from_parts(None, vec![], vec![]);
    let mut ns = NameServerConfig::udp(IpAddr::V4(server_ip(0)));
    for c in ns.connections.iter_mut() {
        c.port = 53;
    }
    cfg.add_name_server(ns);
    let mut builder = hickory_resolver::Resolver::builder_with_config(cfg, SimProvider::new(CLIENT));
    {
        let o = builder.options_mut();
        o.preserve_intermediates = p.preserve_intermediates;
        o.cache_size = p.cache_size as u64;
        o.ndots = 0;
        o.attempts = 1;
        o.edns0 = false;
        o.case_randomization = false;
    }
    let resolver = match builder.build() {
        Ok(r) => Rc::new(r),
        Err(e) => {
            exec::violate("C19.harness", "alias", format!("resolver: {e}"));
            return;
        }
    };
    // follow-up queries the chain needs from a0 when every response carries `hops_per_response`
    let needed: Option<u32> = {
        let mut i = 0u8;
        let mut qn = 0u32;
        let mut seen = BTreeSet::new();
        loop {
            if !seen.insert(i) {
                break None; // loop
            }
            qn += 1;
            let mut hops = 0;
            let mut ended = false;
            while hops < p.hops_per_response {
                match target_of(i) {
                    Some(t) => {
                        i = t;
                        hops += 1;
                    }
                    None => {
                        ended = true;
                        break;
                    }
                }
            }
            if ended || target_of(i).is_none() && hops < p.hops_per_response {
                break Some(qn);
            }
            if qn > 40 {
                break None;
            }
        }
    };
    let rounds = if p.again { 2 } else { 1 };
    for round in 0..rounds {
        let before = queries.get();
        let mut joins = Vec::new();
        for c in 0..p.callers {
            let resolver = resolver.clone();
            joins.push(exec::spawn(&format!("caller{c}"), async move { resolver.lookup(n("a0.alias."), RecordType::A).await }));
        }
        let mut results = Vec::new();
        for j in joins {
            match exec::timeout(Duration::from_secs(600), j).await {
                Ok(r) => results.push(r),
                Err(()) => {
                    exec::violate("C19.no-termination", "alias-pending", format!("a lookup through a chain of {} aliases (loop {:?}) was still pending after 10 simulated minutes", p.len, p.loop_to));
                    return;
                }
            }
        }
        let spent = queries.get() - before;
        exec::count(&format!("probe.alias_queries.le{}", bucket(spent)));
        exec::log(&format!("round {round}: {spent} upstream queries; results {:?}", results.iter().map(|r| r.as_ref().map(|l| l.answers().len()).map_err(|e| e.to_string())).collect::<Vec<_>>()));
        // bounded work: at most 8 nested lookups per caller (and identical callers share)
        if spent > 9 * p.callers as u64 {
            if exec::violate("C19.alias-bound", "", format!("{spent} upstream queries for {} caller(s) chasing a chain of {} aliases (loop {:?}, {} hops per response)", p.callers, p.len, p.loop_to, p.hops_per_response)) {
                return;
            }
        }
        for r in &results {
            match r {
                Ok(l) => {
                    exec::count("probe.alias_ok");
                    let ips: Vec<Ipv4Addr> = l
                        .answers()
                        .iter()
                        .filter_map(|r| match &r.data {
                            RData::A(A(ip)) => Some(*ip),
                            _ => None,
                        })
                        .collect();
                    if p.end != 0 || p.loop_to.is_some() || ips.iter().any(|ip| *ip != end_ip) {
                        if exec::violate("C19.alias-wrong-answer", "", format!("lookup returned {ips:?} for a chain of {} aliases ending in {} (loop {:?})", p.len, ["an address", "NODATA", "NXDOMAIN"][p.end as usize % 3], p.loop_to)) {
                            return;
                        }
                    }
                }
                Err(e) => {
                    exec::count("probe.alias_err");
                    if p.end == 0 && p.loop_to.is_none() && needed.map(|q| q <= 5).unwrap_or(false) {
                        if exec::violate("C19.alias-unavailable", "", format!("{e} for a chain of {} aliases ({} hops per response, {:?} queries needed) that ends in an address", p.len, p.hops_per_response, needed)) {
                            return;
                        }
                    }
                }
            }
        }
    }
}

pub fn def() -> CheckDef {
    CheckDef { id: "C19", level: "exploration", parts: vec![Box::new(RecursorPart), Box::new(AliasPart)] }
}
