//! C06 — a signature is accepted only for the exact RRset, key and time window.
//!
//! One real signed zone (trust anchor = its key), one long-lived real `DnssecDnsHandle`
//! (shared validation cache), a history of validate / advance-clock / wall-clock-jump steps,
//! each upstream response passing through a corruption layer.

use std::sync::Arc;
use std::time::Duration;

use futures_util::stream::StreamExt;
use hickory_net::dnssec::DnssecDnsHandle;
use hickory_net::runtime::Time;
use hickory_net::xfer::DnsHandle;
use hickory_proto::dnssec::rdata::{DNSSECRData, DNSKEY, RRSIG};
use hickory_proto::dnssec::{Proof, PublicKey, PublicKeyBuf};
use hickory_proto::op::{DnsRequestOptions, Message, Query};
use hickory_proto::rr::rdata::{A, MX, NS, SOA, TXT};
use hickory_proto::rr::{Name, RData, Record, RecordType, SerialNumber};
use hsim::exec::{self, SimConfig};
use hsim::net::SimTime;
use hsim::rng::mix;
use hsim::supervisor::{CheckDef, Describe, Part, Report, Tier};
use hsim::Rng;
use serde::{Deserialize, Serialize};
use serde_json::Value;

use super::dnssec::{anchors_for, build_zone, serial_le, truth_of, KeyRef, Nx, Router, World, ZoneSpec};
use super::update::finish;

#[derive(Serialize, Deserialize, Clone, Copy, Debug, PartialEq, Eq, PartialOrd, Ord)]
enum Edit {
    /// flip one bit of the wire image of the response
    BitFlip(u32),
    TypeCovered,
    Algorithm,
    LabelsUp,
    LabelsDown,
    OrigTtlUp,
    OrigTtlDown,
    ExpirationLater(u32),
    InceptionEarlier(u32),
    KeyTag,
    Signer,
    SigByte(u32),
    RdataAlter,
    RemoveRecord,
    AddRecord,
    OwnerCase,
    TtlUp(u32),
    TtlDown,
    DnskeyZoneFlagOff,
    DnskeyRevoke,
    DnskeyKeyByte(u32),
    SubstituteDnskey,
    StripRrsigs,
    /// change the CLASS of the answer records (0), of their RRSIGs (1) or of both (2)
    ClassChange(u8),
    /// add a record of the same owner and type but another CLASS (0 CH, 1 HS, 2 unknown, 3 NONE)
    /// in front (bit 2) or behind, with new (0) or copied (bit 3) RDATA
    AddForeignClass(u8),
    /// add a second RRSIG for the answer RRset that can never verify it — signer name of another
    /// zone (bit 1 clear) or a garbage signature under the right signer (bit 1 set) — with a far
    /// later expiration, in front of the genuine RRSIG (bit 0 clear) or behind it
    AddForeignRrsig(u8),
}

#[derive(Serialize, Deserialize, Clone, Debug)]
enum Step {
    /// validate query `q`; `edit` is applied to the `target`-th upstream response of this step
    /// (0 = the answer itself, 1.. = the validator's sub-queries, i.e. DNSKEY)
    Validate { q: usize, edit: Option<(usize, Edit)> },
    Advance { secs: u64 },
    JumpWall { secs: i64 },
}

#[derive(Serialize, Deserialize, Clone, Debug)]
struct Plan {
    sim: SimConfig,
    key: KeyRef,
    sig_duration_s: u64,
    ttl: u32,
    steps: Vec<Step>,
}

fn n(s: &str) -> Name {
    Name::from_ascii(s).unwrap()
}

fn zone_spec(p: &Plan) -> ZoneSpec {
    let o = n("example.");
    let t = p.ttl;
    let records = vec![
        Record::from_rdata(o.clone(), t, RData::SOA(SOA::new(n("ns.example."), n("admin.example."), 1, 3600, 600, 86400, 60))),
        Record::from_rdata(o.clone(), t, RData::NS(NS(n("ns.example.")))),
        Record::from_rdata(n("ns.example."), t, RData::A(A::new(192, 0, 2, 53))),
        Record::from_rdata(n("www.example."), t, RData::A(A::new(192, 0, 2, 1))),
        Record::from_rdata(n("www.example."), t, RData::A(A::new(192, 0, 2, 2))),
        Record::from_rdata(n("txt.example."), t, RData::TXT(TXT::new(vec!["hello".to_string()]))),
        Record::from_rdata(n("mail.example."), t, RData::MX(MX::new(10, n("www.example.")))),
    ];
    ZoneSpec { origin: o, records, nx: Nx::Nsec, keys: vec![p.key.clone()], sig_duration_s: p.sig_duration_s }
}

fn queries() -> Vec<Query> {
    vec![Query::new(n("www.example."), RecordType::A), Query::new(n("txt.example."), RecordType::TXT), Query::new(n("mail.example."), RecordType::MX), Query::new(n("example."), RecordType::NS), Query::new(n("WwW.eXample."), RecordType::A)]
}

fn gen_edit(r: &mut Rng) -> (usize, Edit) {
    let e = match r.below(32) {
        0..=3 => Edit::BitFlip(r.next_u64() as u32),
        4 => Edit::TypeCovered,
        5 => Edit::Algorithm,
        6 => Edit::LabelsUp,
        7 => Edit::LabelsDown,
        8 => Edit::OrigTtlUp,
        9 => Edit::OrigTtlDown,
        10 => Edit::ExpirationLater(*r.pick(&[1u32, 100, 100_000])),
        11 => Edit::InceptionEarlier(*r.pick(&[1u32, 100, 100_000])),
        12 => Edit::KeyTag,
        13 => Edit::Signer,
        14 => Edit::SigByte(r.next_u64() as u32),
        15 => Edit::RdataAlter,
        16 => Edit::RemoveRecord,
        17 => Edit::AddRecord,
        18 => Edit::OwnerCase,
        19 => Edit::TtlUp(*r.pick(&[1u32, 1000, 1_000_000])),
        20 => Edit::TtlDown,
        21 => Edit::DnskeyZoneFlagOff,
        22 => Edit::DnskeyRevoke,
        23 => Edit::DnskeyKeyByte(r.next_u64() as u32),
        24 => Edit::SubstituteDnskey,
        25 => Edit::StripRrsigs,
        26 | 27 => Edit::ClassChange(r.below(3) as u8),
        28 | 29 => Edit::AddForeignClass(r.below(16) as u8),
        _ => Edit::AddForeignRrsig(r.below(4) as u8),
    };
    let target = match e {
        Edit::DnskeyZoneFlagOff | Edit::DnskeyRevoke | Edit::DnskeyKeyByte(_) | Edit::SubstituteDnskey => 1,
        Edit::BitFlip(_) | Edit::SigByte(_) | Edit::StripRrsigs | Edit::ExpirationLater(_) | Edit::InceptionEarlier(_) | Edit::KeyTag => {
            if r.chance(1, 3) {
                1
            } else {
                0
            }
        }
        _ => 0,
    };
    (target, e)
}

fn map_rrsig(m: &mut Message, f: impl Fn(&RRSIG) -> RRSIG) {
    for rec in m.answers.iter_mut().chain(m.authorities.iter_mut()).chain(m.additionals.iter_mut()) {
        if let RData::DNSSEC(DNSSECRData::RRSIG(s)) = &rec.data {
            rec.data = RData::DNSSEC(DNSSECRData::RRSIG(f(s)));
        }
    }
}

fn map_dnskey(m: &mut Message, f: impl Fn(&DNSKEY) -> DNSKEY) {
    for rec in m.answers.iter_mut() {
        if let RData::DNSSEC(DNSSECRData::DNSKEY(k)) = &rec.data {
            rec.data = RData::DNSSEC(DNSSECRData::DNSKEY(f(k)));
        }
    }
}

fn flip_name_case(name: &Name) -> Name {
    let labels: Vec<Vec<u8>> = name.iter().map(|l| l.iter().map(|b| if b.is_ascii_alphabetic() { b ^ 0x20 } else { *b }).collect()).collect();
    let mut nn = Name::from_labels(labels).unwrap_or_else(|_| name.clone());
    nn.set_fqdn(true);
    nn
}

/// returns None when the edit cannot be applied to this message (then nothing is tampered)
fn apply_edit(orig: &Message, e: Edit, other_key: &PublicKeyBuf) -> Option<Message> {
    let mut m = orig.clone();
    match e {
        Edit::BitFlip(sel) => {
            let mut b = orig.to_vec().ok()?;
            if b.len() <= 12 {
                return None;
            }
            // leave the header alone (id / flags are not what C06 is about)
            let bit = 96 + sel as usize % ((b.len() - 12) * 8);
            b[bit / 8] ^= 1 << (bit % 8);
            return Message::from_vec(&b).ok();
        }
        Edit::TypeCovered => map_rrsig(&mut m, |s| {
            let mut i = s.input().clone();
            i.type_covered = if i.type_covered == RecordType::A { RecordType::AAAA } else { RecordType::A };
            RRSIG::from_sig(i, s.sig().to_vec())
        }),
        Edit::Algorithm => map_rrsig(&mut m, |s| {
            let mut i = s.input().clone();
            i.algorithm = if i.algorithm == hickory_proto::dnssec::Algorithm::ED25519 { hickory_proto::dnssec::Algorithm::ECDSAP256SHA256 } else { hickory_proto::dnssec::Algorithm::ED25519 };
            RRSIG::from_sig(i, s.sig().to_vec())
        }),
        Edit::LabelsUp => map_rrsig(&mut m, |s| {
            let mut i = s.input().clone();
            i.num_labels = i.num_labels.wrapping_add(1);
            RRSIG::from_sig(i, s.sig().to_vec())
        }),
        Edit::LabelsDown => map_rrsig(&mut m, |s| {
            let mut i = s.input().clone();
            i.num_labels = i.num_labels.saturating_sub(1);
            RRSIG::from_sig(i, s.sig().to_vec())
        }),
        Edit::OrigTtlUp => map_rrsig(&mut m, |s| {
            let mut i = s.input().clone();
            i.original_ttl = i.original_ttl.wrapping_add(1000);
            RRSIG::from_sig(i, s.sig().to_vec())
        }),
        Edit::OrigTtlDown => map_rrsig(&mut m, |s| {
            let mut i = s.input().clone();
            i.original_ttl = i.original_ttl.saturating_sub(1);
            RRSIG::from_sig(i, s.sig().to_vec())
        }),
        Edit::ExpirationLater(d) => map_rrsig(&mut m, |s| {
            let mut i = s.input().clone();
            i.sig_expiration = SerialNumber::new(i.sig_expiration.get().wrapping_add(d));
            RRSIG::from_sig(i, s.sig().to_vec())
        }),
        Edit::InceptionEarlier(d) => map_rrsig(&mut m, |s| {
            let mut i = s.input().clone();
            i.sig_inception = SerialNumber::new(i.sig_inception.get().wrapping_sub(d));
            RRSIG::from_sig(i, s.sig().to_vec())
        }),
        Edit::KeyTag => map_rrsig(&mut m, |s| {
            let mut i = s.input().clone();
            i.key_tag = i.key_tag.wrapping_add(1);
            RRSIG::from_sig(i, s.sig().to_vec())
        }),
        Edit::Signer => map_rrsig(&mut m, |s| {
            let mut i = s.input().clone();
            i.signer_name = n("attacker.example.");
            RRSIG::from_sig(i, s.sig().to_vec())
        }),
        Edit::SigByte(sel) => map_rrsig(&mut m, |s| {
            let mut sig = s.sig().to_vec();
            if !sig.is_empty() {
                let bit = sel as usize % (sig.len() * 8);
                sig[bit / 8] ^= 1 << (bit % 8);
            }
            RRSIG::from_sig(s.input().clone(), sig)
        }),
        Edit::RdataAlter => {
            let rec = m.answers.iter_mut().find(|r| r.record_type() != RecordType::RRSIG)?;
            rec.data = match &rec.data {
                RData::A(a) => RData::A(A::new(a.0.octets()[0], a.0.octets()[1], a.0.octets()[2], a.0.octets()[3].wrapping_add(1))),
                RData::TXT(_) => RData::TXT(TXT::new(vec!["hellp".to_string()])),
                RData::MX(mx) => RData::MX(MX::new(mx.preference.wrapping_add(1), mx.exchange.clone())),
                RData::NS(_) => RData::NS(NS(n("evil.example."))),
                _ => return None,
            };
        }
        Edit::RemoveRecord => {
            let idx = m.answers.iter().position(|r| r.record_type() != RecordType::RRSIG)?;
            if m.answers.iter().filter(|r| r.record_type() != RecordType::RRSIG).count() < 2 {
                return None;
            }
            m.answers.remove(idx);
        }
        Edit::AddRecord => {
            let rec = m.answers.iter().find(|r| r.record_type() == RecordType::A)?.clone();
            let mut extra = rec.clone();
            extra.data = RData::A(A::new(203, 0, 113, 66));
            m.answers.push(extra);
        }
        Edit::OwnerCase => {
            for rec in m.answers.iter_mut() {
                rec.name = flip_name_case(&rec.name);
            }
        }
        Edit::TtlUp(d) => {
            for rec in m.answers.iter_mut() {
                rec.ttl = rec.ttl.saturating_add(d);
            }
        }
        Edit::TtlDown => {
            for rec in m.answers.iter_mut() {
                rec.ttl = 1;
            }
        }
        Edit::DnskeyZoneFlagOff => {
            m.answers.iter().find(|r| r.record_type() == RecordType::DNSKEY)?;
            map_dnskey(&mut m, |k| DNSKEY::with_flags(k.flags() & !0x0100, k.public_key().clone()))
        }
        Edit::DnskeyRevoke => {
            m.answers.iter().find(|r| r.record_type() == RecordType::DNSKEY)?;
            map_dnskey(&mut m, |k| DNSKEY::with_flags(k.flags() | 0x0080, k.public_key().clone()))
        }
        Edit::DnskeyKeyByte(sel) => {
            m.answers.iter().find(|r| r.record_type() == RecordType::DNSKEY)?;
            map_dnskey(&mut m, |k| {
                let mut b = k.public_key().public_bytes().to_vec();
                let bit = sel as usize % (b.len() * 8);
                b[bit / 8] ^= 1 << (bit % 8);
                DNSKEY::with_flags(k.flags(), PublicKeyBuf::new(b, k.public_key().algorithm()))
            })
        }
        Edit::SubstituteDnskey => {
            m.answers.iter().find(|r| r.record_type() == RecordType::DNSKEY)?;
            map_dnskey(&mut m, |k| DNSKEY::with_flags(k.flags(), other_key.clone()))
        }
        Edit::ClassChange(which) => {
            for rec in m.answers.iter_mut() {
                let is_sig = rec.record_type() == RecordType::RRSIG;
                if (which == 0 && !is_sig) || (which == 1 && is_sig) || which == 2 {
                    rec.dns_class = hickory_proto::rr::DNSClass::CH;
                }
            }
        }
        Edit::AddForeignClass(k) => {
            use hickory_proto::rr::DNSClass;
            let q = m.queries.first()?.clone();
            let rec = m.answers.iter().find(|r| r.record_type() == q.query_type)?.clone();
            let mut extra = rec.clone();
            extra.dns_class = match k & 3 {
                0 => DNSClass::CH,
                1 => DNSClass::HS,
                2 => DNSClass::Unknown(77),
                _ => DNSClass::NONE,
            };
            if k & 8 == 0 {
                if let RData::A(_) = extra.data {
                    extra.data = RData::A(A::new(203, 0, 113, 67));
                }
            }
            if k & 4 != 0 {
                m.answers.insert(0, extra);
            } else {
                m.answers.push(extra);
            }
        }
        Edit::AddForeignRrsig(k) => {
            let q = m.queries.first()?.clone();
            let pos = m.answers.iter().position(|r| matches!(&r.data, RData::DNSSEC(DNSSECRData::RRSIG(s)) if s.input().type_covered == q.query_type))?;
            let mut extra = m.answers[pos].clone();
            if let RData::DNSSEC(DNSSECRData::RRSIG(s)) = &extra.data {
                let mut i = s.input().clone();
                i.sig_expiration = hickory_proto::rr::SerialNumber::new(i.sig_expiration.get().wrapping_add(400_000_000));
                let mut sig = s.sig().to_vec();
                if k & 2 == 0 {
                    i.signer_name = Name::from_ascii("other.").ok()?;
                } else {
                    for b in sig.iter_mut() {
                        *b ^= 0x5a;
                    }
                }
                extra.data = RData::DNSSEC(DNSSECRData::RRSIG(RRSIG::from_sig(i, sig)));
            }
            if k & 1 == 0 {
                m.answers.insert(pos, extra);
            } else {
                m.answers.insert(pos + 1, extra);
            }
        }
        Edit::StripRrsigs => {
            let before = m.answers.len();
            m.answers.retain(|r| r.record_type() != RecordType::RRSIG);
            if m.answers.len() == before {
                return None;
            }
        }
    }
    if m == *orig {
        None
    } else {
        Some(m)
    }
}

pub struct C06Part;

impl Part for C06Part {
    fn name(&self) -> &'static str {
        "sigwindow"
    }
    fn runs(&self, tier: Tier) -> u64 {
        match tier {
            Tier::Quick => 12_000,
            Tier::Thorough => 600_000,
        }
    }
    fn block(&self, _t: Tier) -> u64 {
        32
    }
    fn gen(&self, seed: u64, _tier: Tier) -> Value {
        let mut r = Rng::new(seed);
        let mut sim = SimConfig::from_seed(seed);
        sim.max_sim_ns = 4_000_000_000 * 1_000_000_000;
        sim.step_budget = 400_000;
        if r.chance(1, 12) {
            // signature windows that straddle the u32 wrap of the RRSIG time stamps (year 2106)
            sim.epoch_s = 4_294_967_296 - *r.pick(&[50u64, 500, 90_000]);
        }
        let key = match r.below(6) {
            0 => KeyRef { file: "rsa-2048-1.pk8".into(), alg: "rsa".into() },
            1 => KeyRef { file: "ecdsa-p256-0.pk8".into(), alg: "ecdsa".into() },
            _ => KeyRef::ed(r.usize_below(3)),
        };
        let sig_duration_s = *r.pick(&[100u64, 100, 3600, 86_400]);
        let ttl = *r.pick(&[30u32, 300, 3600, 100_000]);
        let nsteps = 1 + r.usize_below(7);
        let fault_free = r.chance(1, 5);
        let mut steps = Vec::new();
        for _ in 0..nsteps {
            match r.below(10) {
                0..=5 => steps.push(Step::Validate { q: r.usize_below(5), edit: if fault_free || r.chance(1, 2) { None } else { Some(gen_edit(&mut r)) } }),
                6..=8 => {
                    let d = sig_duration_s;
                    let secs = *r.pick(&[1u64, d / 2, d.saturating_sub(1), d, d + 1, d + 50, ttl as u64, ttl as u64 + 1, 10 * d]);
                    steps.push(Step::Advance { secs: secs.max(1) });
                }
                _ => {
                    let d = sig_duration_s as i64;
                    steps.push(Step::JumpWall { secs: *r.pick(&[-1i64, -10, -d, d / 2, d + 1, -(d + 1), 1_000_000]) });
                }
            }
        }
        if !steps.iter().any(|s| matches!(s, Step::Validate { .. })) {
            steps.push(Step::Validate { q: 0, edit: None });
        }
        // a persistent on-path edit: the same harmless-looking addition on every response of the
        // history for one question, with the clock moved in between (what a cached verdict must survive)
        if !fault_free && r.chance(1, 6) {
            let q = r.usize_below(5);
            let e = if r.chance(2, 3) { Edit::AddForeignRrsig(r.below(4) as u8) } else { Edit::AddForeignClass(r.below(16) as u8) };
            let d = sig_duration_s;
            steps = vec![
                Step::Validate { q, edit: Some((0, e)) },
                Step::Advance { secs: *r.pick(&[d / 2, d.saturating_sub(10).max(1), d + 1, d + 50]) },
                Step::Validate { q, edit: Some((0, e)) },
                Step::Advance { secs: *r.pick(&[1u64, d / 2 + 1, d]) },
                Step::Validate { q, edit: Some((0, e)) },
            ];
        }
        serde_json::to_value(Plan { sim, key, sig_duration_s, ttl, steps }).unwrap()
    }
    fn run(&self, plan: &Value, trace: bool) -> Report {
        let mut p: Plan = serde_json::from_value(plan.clone()).expect("plan");
        p.sim.trace = trace;
        let mut sig = mix(p.sig_duration_s ^ (p.ttl as u64) << 20);
        let mut nontrivial = false;
        for s in &p.steps {
            let code = match s {
                Step::Validate { q, edit } => {
                    nontrivial |= edit.is_some();
                    1u64 << 32 | (*q as u64) << 24 | edit.map(|(t, e)| (t as u64) << 16 | edit_code(e)).unwrap_or(0)
                }
                Step::Advance { secs } => {
                    nontrivial = true;
                    2u64 << 32 | ((*secs >= p.sig_duration_s) as u64) << 1 | (*secs >= p.ttl as u64) as u64
                }
                Step::JumpWall { secs } => {
                    nontrivial = true;
                    3u64 << 32 | (*secs < 0) as u64
                }
            };
            sig = mix(sig ^ code);
        }
        let p2 = p.clone();
        let out = exec::run(&p.sim, async move { scenario(p2).await });
        finish(out, sig, nontrivial, "C06.stall")
    }
    fn shrink(&self, plan: &Value) -> Vec<Value> {
        let Ok(p) = serde_json::from_value::<Plan>(plan.clone()) else { return vec![] };
        let mut out = Vec::new();
        for i in 0..p.steps.len() {
            if p.steps.len() > 1 {
                let mut q = p.clone();
                q.steps.remove(i);
                out.push(q);
            }
        }
        for i in 0..p.steps.len() {
            if let Step::Validate { q: qi, edit: Some(_) } = &p.steps[i] {
                let mut q = p.clone();
                q.steps[i] = Step::Validate { q: *qi, edit: None };
                out.push(q);
            }
            if let Step::Validate { q: qi, edit } = &p.steps[i] {
                if *qi != 0 {
                    let mut q = p.clone();
                    q.steps[i] = Step::Validate { q: 0, edit: *edit };
                    out.push(q);
                }
            }
        }
        if p.key.alg != "ed25519" {
            let mut q = p.clone();
            q.key = KeyRef::ed(0);
            out.push(q);
        }
        if p.sim.epoch_s != hsim::interpose::DEFAULT_EPOCH_S {
            let mut q = p.clone();
            q.sim.epoch_s = hsim::interpose::DEFAULT_EPOCH_S;
            out.push(q);
        }
        out.into_iter().map(|q| serde_json::to_value(q).unwrap()).collect()
    }
    fn describe(&self) -> Describe {
        Describe {
            rule: "plan = (zone key in {Ed25519 x3, RSA-2048, ECDSA-P256}, signature validity in {100 s, 1 h, 1 d}, record TTL in {30 s .. 100000 s}, clock origin incl. windows straddling the u32 wrap, history of 1-8 steps {validate one of 5 queries through one long-lived validator with optional corruption of the answer or of the DNSKEY response: wire bit flip or one structured edit of RRSIG fields / RDATA / RRset membership / owner case / TTL / DNSKEY flags, key bits, substituted key / stripped RRSIGs; advance clock to around expiry / TTL; jump the wall clock}); non-trivial = any corruption or clock movement; distinct by the sequence of (step kind, query, edit kind+target, clock class)".into(),
            real: vec!["DnssecDnsHandle (verify_response, verify_rrsets, verify_dnskey_rrset, verify_rrset_with_dnskey, RrsigValidity, ValidationCache)", "authoritative side: InMemoryZoneHandler::secure_zone_mut (signing), Catalog::handle_request producing the genuine responses", "proto: RRSIG/DNSKEY/TBS/Verifier, ring signature verification"],
            stub: vec!["upstream router DnsHandle (picks the zone, applies the corruption)", "fixture keys"],
            assumptions: vec!["ground truth = the zone's own RRsets and RRSIGs: a Secure RRset must equal a genuine RRset whose genuine RRSIG window contains the validator's clock"],
        }
    }
}

fn edit_code(e: Edit) -> u64 {
    match e {
        Edit::BitFlip(_) => 1,
        Edit::TypeCovered => 2,
        Edit::Algorithm => 3,
        Edit::LabelsUp => 4,
        Edit::LabelsDown => 5,
        Edit::OrigTtlUp => 6,
        Edit::OrigTtlDown => 7,
        Edit::ExpirationLater(_) => 8,
        Edit::InceptionEarlier(_) => 9,
        Edit::KeyTag => 10,
        Edit::Signer => 11,
        Edit::SigByte(_) => 12,
        Edit::RdataAlter => 13,
        Edit::RemoveRecord => 14,
        Edit::AddRecord => 15,
        Edit::OwnerCase => 16,
        Edit::TtlUp(_) => 17,
        Edit::TtlDown => 18,
        Edit::DnskeyZoneFlagOff => 19,
        Edit::DnskeyRevoke => 20,
        Edit::DnskeyKeyByte(_) => 21,
        Edit::SubstituteDnskey => 22,
        Edit::StripRrsigs => 23,
        Edit::ClassChange(_) => 24,
        Edit::AddForeignClass(_) => 25,
        Edit::AddForeignRrsig(_) => 26,
    }
}

fn edit_name(e: Edit) -> String {
    let s = format!("{e:?}");
    s.split('(').next().unwrap().to_string()
}

async fn scenario(p: Plan) {
    let zone = build_zone(&zone_spec(&p));
    let truth = truth_of(&zone).await;
    let world = Arc::new(World { zones: vec![zone] });
    let router = Router::new(world.clone());
    let anchors = anchors_for(&[p.key.clone()]);
    let other_key = KeyRef::ed(5).load().to_public_key().unwrap();
    let validator = DnssecDnsHandle::with_trust_anchor(router.clone(), anchors);
    let qs = queries();
    let mut validated_before: std::collections::BTreeSet<usize> = Default::default();
    // Once a corrupted response has been delivered, a Bogus verdict may legitimately sit in the
    // validation cache: the completeness half is judged only while the history is fault-free.
    let mut corrupted_so_far = false;

    for (si, step) in p.steps.iter().enumerate() {
        match step {
            Step::Advance { secs } => {
                exec::sleep(Duration::from_secs(*secs)).await;
                exec::count("fault.clock_advance");
            }
            Step::JumpWall { secs } => {
                exec::jump_wall_clock(*secs * 1_000_000_000);
                exec::count("fault.wall_clock_jump");
            }
            Step::Validate { q, edit } => {
                let query = qs[*q % qs.len()].clone();
                let base = router.count();
                let applied = Arc::new(std::sync::Mutex::new(None::<String>));
                {
                    let edit = *edit;
                    let applied = applied.clone();
                    let other_key = other_key.clone();
                    router.set_tamper(move |nth, _q, m| {
                        if let Some((target, e)) = edit {
                            if nth == base + target {
                                if let Some(m2) = apply_edit(&m, e, &other_key) {
                                    *applied.lock().unwrap() = Some(edit_name(e));
                                    return (Some(m2), true);
                                }
                            }
                        }
                        (Some(m), false)
                    });
                }
                let mut opts = DnsRequestOptions::default();
                opts.use_edns = true;
                opts.edns_set_dnssec_ok = true;
                let result = validator.lookup(query.clone(), opts).next().await;
                let now = SimTime::current_time() as u32;
                if !in_window_all(&truth, &query, now) {
                    // a verdict formed outside the window (rightly Bogus) may stay cached
                    corrupted_so_far = true;
                    exec::count("probe.validated_outside_window");
                }
                let upstream = router.count() - base;
                let edit_applied = applied.lock().unwrap().clone();
                if let Some(e) = &edit_applied {
                    exec::count(&format!("fault.edit.{e}"));
                    corrupted_so_far = true;
                }
                if upstream == 0 {
                    exec::count("probe.fully_cached_validation");
                } else if upstream == 1 {
                    exec::count("probe.key_verdict_from_cache");
                }
                let again = !validated_before.insert(*q % qs.len());
                let phase = if again { "revalidation" } else { "first" };
                let resp = match result {
                    Some(Ok(r)) => r,
                    Some(Err(e)) => {
                        exec::count("probe.validation_error");
                        exec::log(&format!("step {si}: error {e}"));
                        // completeness: nothing tampered, inside every genuine window => no error
                        if !corrupted_so_far && in_window_all(&truth, &query, now) {
                            if exec::violate("C06.genuine-rejected", &format!("error:{phase}"), format!("step {si}: untouched in-window answer for {} {} gave error: {e}", query.name, query.query_type)) {
                                return;
                            }
                        }
                        continue;
                    }
                    None => continue,
                };
                let mut secure_any = false;
                for rec in resp.answers.iter().filter(|r| r.record_type() != RecordType::RRSIG) {
                    let key = (rec.name.to_lowercase().to_string(), u16::from(rec.record_type()));
                    if rec.proof != Proof::Secure {
                        if !corrupted_so_far && in_window(&truth, &key, now) && in_window(&truth, &("example.".to_string(), u16::from(RecordType::DNSKEY)), now) {
                            if exec::violate("C06.genuine-rejected", &format!("{:?}:{phase}", rec.proof), format!("step {si}: untouched in-window record {} {} came back {:?}", rec.name, rec.record_type(), rec.proof)) {
                                return;
                            }
                        }
                        continue;
                    }
                    secure_any = true;
                    let Some((data, sigs, _)) = truth.rrsets.get(&key) else {
                        if exec::violate("C06.secure-modified", &format!("{}:no-such-rrset", edit_applied.clone().unwrap_or_else(|| "none".into())), format!("step {si}: Secure record {} {} does not exist in the zone", rec.name, rec.record_type())) {
                            return;
                        }
                        continue;
                    };
                    // the returned RRset must be exactly the genuine one
                    let returned: Vec<&RData> = resp.answers.iter().filter(|r| r.name.to_lowercase() == rec.name.to_lowercase() && r.record_type() == rec.record_type()).map(|r| &r.data).collect();
                    let class_ok = resp.answers.iter().filter(|r| r.name.to_lowercase() == rec.name.to_lowercase() && (r.record_type() == rec.record_type() || matches!(&r.data, RData::DNSSEC(DNSSECRData::RRSIG(s)) if s.input().type_covered == rec.record_type()))).all(|r| r.dns_class == hickory_proto::rr::DNSClass::IN);
                    let same = class_ok && returned.len() == data.len() && returned.iter().all(|d| data.contains(d));
                    if !same {
                        if exec::violate("C06.secure-modified", &format!("{}:rrset-differs", edit_applied.clone().unwrap_or_else(|| "none".into())), format!("step {si}: Secure RRset {} {} = {returned:?} differs from the signed RRset {data:?}", rec.name, rec.record_type())) {
                            return;
                        }
                        continue;
                    }
                    // inside the window of a genuine signature
                    let win = sigs.iter().find(|s| serial_le(s.input().sig_inception.get(), now) && serial_le(now, s.input().sig_expiration.get()));
                    match win {
                        None => {
                            let s0 = sigs.first().map(|s| (s.input().sig_inception.get(), s.input().sig_expiration.get()));
                            let side = match s0 {
                                Some((inc, _)) if !serial_le(inc, now) => "before-inception",
                                _ => "after-expiration",
                            };
                            if exec::violate("C06.secure-outside-window", side, format!("step {si}: {} {} Secure at validator time {now}, signature window {s0:?} ({upstream} upstream queries in this step)", rec.name, rec.record_type())) {
                                return;
                            }
                        }
                        Some(s) => {
                            let remaining = s.input().sig_expiration.get().wrapping_sub(now);
                            let bound = s.input().original_ttl.min(remaining);
                            if rec.ttl > bound {
                                if exec::violate("C06.ttl-exceeds-validity", "", format!("step {si}: {} {} Secure with TTL {} but original TTL {} and remaining signature lifetime {remaining} s", rec.name, rec.record_type(), rec.ttl, s.input().original_ttl)) {
                                    return;
                                }
                            }
                        }
                    }
                }
                if secure_any {
                    exec::count("probe.secure_answer");
                    if let Some(e) = &edit_applied {
                        exec::count(&format!("probe.secure_despite.{e}"));
                        if std::env::var("C06_DEBUG").ok().as_deref() == Some(e.as_str()) {
                            exec::violate("C06.debug", e, format!("step {si}: secure despite {e}"));
                            return;
                        }
                    }
                }
            }
        }
    }
}

fn in_window(truth: &super::dnssec::Truth, key: &(String, u16), now: u32) -> bool {
    truth.rrsets.get(key).map(|(_, sigs, _)| sigs.iter().any(|s| serial_le(s.input().sig_inception.get(), now) && serial_le(now, s.input().sig_expiration.get()))).unwrap_or(false)
}

fn in_window_all(truth: &super::dnssec::Truth, q: &Query, now: u32) -> bool {
    let k = (q.name.to_lowercase().to_string(), u16::from(q.query_type));
    let dk = ("example.".to_string(), u16::from(RecordType::DNSKEY));
    in_window(truth, &k, now) && in_window(truth, &dk, now)
}

pub fn def() -> CheckDef {
    CheckDef { id: "C06", level: "exploration", parts: vec![Box::new(C06Part)] }
}
