//! C18 — a lookup succeeds if any configured server can answer, within the deadline.
//!
//! Real `NameServerPool` → `NameServer` → `ConnectionProvider` blanket impl → `DnsExchange` →
//! `UdpClientStream` / `TcpClientStream` + `DnsMultiplexer`, all on the simulated network with
//! 1-4 scripted upstream servers whose behaviour per protocol comes from the plan.

use std::cell::RefCell;
use std::collections::{BTreeMap, BTreeSet};
use std::net::{IpAddr, Ipv4Addr, SocketAddr};
use std::rc::Rc;
use std::sync::Arc;
use std::time::Duration;

use futures_util::stream::StreamExt;
use hickory_net::xfer::DnsHandle;
use hickory_net::{DnsError, NetError};
use hickory_proto::op::{DnsRequestOptions, Message, OpCode, Query, ResponseCode};
use hickory_proto::rr::rdata::{A, SOA};
use hickory_proto::rr::{Name, RData, Record, RecordType};
use hickory_resolver::config::{NameServerConfig, ResolverOpts, ServerOrderingStrategy};
use hickory_resolver::{NameServerPool, PoolContext, TlsConfig};
use hsim::exec::{self, SimConfig};
use hsim::net::{self, ConnectVerdict, PipePlan, SimProvider, UdpOut, MS};
use hsim::rng::mix;
use hsim::supervisor::{CheckDef, Describe, Part, Report, Tier};
use hsim::Rng;
use serde::{Deserialize, Serialize};
use serde_json::Value;

use super::update::finish;

const CLIENT: IpAddr = IpAddr::V4(Ipv4Addr::new(10, 0, 0, 1));

fn server_ip(k: usize) -> IpAddr {
    IpAddr::V4(Ipv4Addr::new(10, 0, 1, 1 + k as u8))
}

#[derive(Serialize, Deserialize, Clone, Copy, Debug, PartialEq, Eq, PartialOrd, Ord)]
enum Udp {
    Answer(u32),
    NxDomain(u32),
    Truncated(u32),
    Silent,
    SendError,
    ServFail(u32),
}

#[derive(Serialize, Deserialize, Clone, Copy, Debug, PartialEq, Eq, PartialOrd, Ord)]
enum Tcp {
    Answer(u32),
    NxDomain(u32),
    Refused,
    Blackhole,
    /// accepts, reads the query, then resets
    Reset,
    /// accepts, never answers
    Silent,
    /// answers, and closes the connection (FIN) a millisecond after a reply once nothing else
    /// is pending on it: a healthy server that does not keep idle connections
    AnswerClose(u32),
}

#[derive(Serialize, Deserialize, Clone, Debug)]
struct Server {
    /// 0 = UDP only, 1 = TCP only, 2 = both
    protocols: u8,
    udp: Udp,
    tcp: Tcp,
    trust_negative: bool,
}

#[derive(Serialize, Deserialize, Clone, Debug)]
struct Plan {
    sim: SimConfig,
    servers: Vec<Server>,
    /// 0 QueryStatistics, 1 UserProvidedOrder, 2 RoundRobin
    ordering: u8,
    num_concurrent_reqs: usize,
    timeout_ms: u64,
    /// callers: index of the question each asks; equal indices = identical requests
    callers: Vec<u8>,
    /// stagger between callers in ms (0 = all at once)
    stagger_ms: u64,
    /// a warm-up lookup before the measured ones (fills SRTT statistics, opens connections)
    warmup: bool,
    /// caller 0 gives up (drops its lookup future) after this many ms (0 = never); once every
    /// caller is done, the same question is asked again on the same pool
    #[serde(default)]
    cancel_first_ms: u64,
    /// this many extra lookups of distinct names start together with the callers: more than a
    /// connection's request queue holds, so that servers push back with `Busy`
    #[serde(default)]
    burst: u8,
    /// after everything else: wait this long, then ask every distinct question once more, one
    /// after another (0 = no second round)
    #[serde(default)]
    second_round_ms: u64,
}

fn marker(server: usize, tcp: bool) -> Ipv4Addr {
    Ipv4Addr::new(203, 0, server as u8 + 1, if tcp { 2 } else { 1 })
}

fn respond(req: &Message, server: usize, tcp: bool, kind: u8) -> Vec<u8> {
    // kind: 0 answer, 1 nxdomain, 2 truncated, 3 servfail
    let mut m = Message::response(req.metadata.id, OpCode::Query);
    m.metadata.recursion_desired = req.metadata.recursion_desired;
    m.metadata.recursion_available = true;
    for q in &req.queries {
        m.add_query(q.clone());
    }
    match kind {
        0 => {
            if let Some(q) = req.queries.first() {
                m.add_answer(Record::from_rdata(q.name.clone(), 60, RData::A(A(marker(server, tcp)))));
            }
        }
        1 => {
            m.metadata.response_code = ResponseCode::NXDomain;
            let z = Name::from_ascii("example.").unwrap();
            m.add_authority(Record::from_rdata(z.clone(), 60, RData::SOA(SOA::new(z.clone(), z, 1, 60, 60, 60, 60))));
        }
        2 => m.metadata.truncation = true,
        _ => m.metadata.response_code = ResponseCode::ServFail,
    }
    m.to_vec().expect("encode")
}

pub struct PoolPart;

fn gen_server(r: &mut Rng) -> Server {
    let lat = |r: &mut Rng| *r.pick(&[1u32, 5, 20, 80, 300, 900]);
    let udp = match r.below(12) {
        0..=4 => Udp::Answer(lat(r)),
        5 => Udp::NxDomain(lat(r)),
        6..=7 => Udp::Truncated(lat(r)),
        8..=9 => Udp::Silent,
        10 => Udp::SendError,
        _ => Udp::ServFail(lat(r)),
    };
    let tcp = match r.below(10) {
        0..=3 => Tcp::Answer(lat(r)),
        4 => Tcp::AnswerClose(lat(r)),
        5 => Tcp::NxDomain(lat(r)),
        6 => Tcp::Refused,
        7 => Tcp::Blackhole,
        8 => Tcp::Reset,
        _ => Tcp::Silent,
    };
    Server { protocols: *r.pick(&[0u8, 0, 1, 2, 2]), udp, tcp, trust_negative: r.chance(2, 3) }
}

impl Part for PoolPart {
    fn name(&self) -> &'static str {
        "pool"
    }
    fn runs(&self, tier: Tier) -> u64 {
        match tier {
            Tier::Quick => 10_000,
            Tier::Thorough => 500_000,
        }
    }
    fn block(&self, _t: Tier) -> u64 {
        32
    }
    fn gen(&self, seed: u64, _tier: Tier) -> Value {
        let mut r = Rng::new(seed);
        let mut sim = SimConfig::from_seed(seed);
        sim.step_budget = 1_000_000;
        let n = 1 + r.usize_below(4);
        let servers = (0..n).map(|_| gen_server(&mut r)).collect();
        let nc = 1 + r.usize_below(4);
        let same = r.chance(1, 2);
        let callers = (0..nc).map(|i| if same { 0 } else { (i % 3) as u8 }).collect();
        serde_json::to_value(Plan {
            sim,
            servers,
            ordering: r.below(3) as u8,
            num_concurrent_reqs: 1 + r.usize_below(3),
            timeout_ms: *r.pick(&[500u64, 1000, 2000, 5000]),
            callers,
            stagger_ms: *r.pick(&[0u64, 0, 1, 30]),
            warmup: r.chance(1, 4),
            cancel_first_ms: if r.chance(1, 5) { *r.pick(&[1u64, 10, 50, 200, 600]) } else { 0 },
            burst: if r.chance(1, 25) { *r.pick(&[5u8, 12, 20, 41]) } else { 0 },
            second_round_ms: if r.chance(1, 3) { *r.pick(&[30u64, 200, 1500, 20_000]) } else { 0 },
        })
        .unwrap()
    }
    fn run(&self, plan: &Value, trace: bool) -> Report {
        let mut p: Plan = serde_json::from_value(plan.clone()).expect("plan");
        p.sim.trace = trace;
        let mut sig = mix(p.ordering as u64 ^ (p.num_concurrent_reqs as u64) << 4 ^ (p.callers.len() as u64) << 8 ^ (p.timeout_ms) << 16 ^ (p.warmup as u64) << 40 ^ (p.cancel_first_ms) << 44 ^ (p.burst as u64) << 56 ^ mix(p.second_round_ms));
        for s in &p.servers {
            let u = match s.udp {
                Udp::Answer(_) => 1,
                Udp::NxDomain(_) => 2,
                Udp::Truncated(_) => 3,
                Udp::Silent => 4,
                Udp::SendError => 5,
                Udp::ServFail(_) => 6,
            };
            let t = match s.tcp {
                Tcp::Answer(_) => 1,
                Tcp::AnswerClose(_) => 7,
                Tcp::NxDomain(_) => 2,
                Tcp::Refused => 3,
                Tcp::Blackhole => 4,
                Tcp::Reset => 5,
                Tcp::Silent => 6,
            };
            sig = mix(sig ^ (s.protocols as u64) << 16 ^ u << 8 ^ t ^ (s.trust_negative as u64) << 20);
        }
        let nontrivial = p.servers.len() > 1 || p.callers.len() > 1 || !matches!(p.servers[0].udp, Udp::Answer(_));
        let p2 = p.clone();
        let out = exec::run(&p.sim, async move { scenario(p2).await });
        finish(out, sig, nontrivial, "C18.stall")
    }
    fn shrink(&self, plan: &Value) -> Vec<Value> {
        let Ok(p) = serde_json::from_value::<Plan>(plan.clone()) else { return vec![] };
        let mut out = Vec::new();
        if p.servers.len() > 1 {
            for i in 0..p.servers.len() {
                let mut q = p.clone();
                q.servers.remove(i);
                out.push(q);
            }
        }
        if p.callers.len() > 1 {
            let mut q = p.clone();
            q.callers.pop();
            out.push(q);
        }
        if p.warmup {
            let mut q = p.clone();
            q.warmup = false;
            out.push(q);
        }
        if p.cancel_first_ms != 0 {
            let mut q = p.clone();
            q.cancel_first_ms = 0;
            out.push(q);
        }
        if p.second_round_ms != 0 {
            let mut q = p.clone();
            q.second_round_ms = 0;
            out.push(q);
        }
        if p.burst != 0 {
            let mut q = p.clone();
            q.burst = 0;
            out.push(q);
            let mut q = p.clone();
            q.burst /= 2;
            out.push(q);
        }
        if p.stagger_ms != 0 {
            let mut q = p.clone();
            q.stagger_ms = 0;
            out.push(q);
        }
        if p.ordering != 1 {
            let mut q = p.clone();
            q.ordering = 1;
            out.push(q);
        }
        if p.num_concurrent_reqs != 1 {
            let mut q = p.clone();
            q.num_concurrent_reqs = 1;
            out.push(q);
        }
        for i in 0..p.servers.len() {
            if p.servers[i].protocols != 0 {
                let mut q = p.clone();
                q.servers[i].protocols = 0;
                out.push(q);
            }
        }
        if p.sim.policy != hsim::SchedPolicy::Fifo {
            let mut q = p.clone();
            q.sim.policy = hsim::SchedPolicy::Fifo;
            out.push(q);
        }
        out.into_iter().map(|q| serde_json::to_value(q).unwrap()).collect()
    }
    fn describe(&self) -> Describe {
        Describe {
            rule: "plan = (1-4 upstream servers, each UDP-only / TCP-only / both with a behaviour per protocol from {answer after L, NXDOMAIN, truncated, silent, send error, SERVFAIL | answer, NXDOMAIN, connection refused, connect black-hole, reset after query, accept-and-stay-silent}, trust_negative_responses per server, ordering strategy, num_concurrent_reqs 1-3, timeout 0.5-5 s, 1-4 concurrent callers with identical or different questions, optional stagger and warm-up lookup); non-trivial = several servers or callers or a faulty first server; distinct by the full behaviour assignment and options".into(),
            real: vec!["hickory_resolver::NameServerPool (send, shared lookups, PoolState::try_send)", "NameServer::{send, send_inner, connected_mut_client}, SRTT bookkeeping", "ConnectionProvider blanket impl for RuntimeProvider", "DnsExchange, UdpClientStream (retries), TcpClientStream + DnsMultiplexer"],
            stub: vec!["SimNet sockets", "scripted upstream servers"],
            assumptions: vec!["availability is only demanded where it is unambiguous that the time budget allows it (every server healthy or fast-failing, or all servers inside the first parallel batch)"],
        }
    }
}

#[derive(Default)]
struct Seen {
    /// (server, question name) -> distinct message ids seen over UDP / TCP
    udp_ids: BTreeMap<(usize, String), BTreeSet<u16>>,
    tcp_ids: BTreeMap<(usize, String), BTreeSet<u16>>,
}

fn questions() -> Vec<Query> {
    let n = |s: &str| Name::from_ascii(s).unwrap();
    vec![Query::new(n("www.example."), RecordType::A), Query::new(n("mail.example."), RecordType::A), Query::new(n("ftp.example."), RecordType::A)]
}

async fn scenario(p: Plan) {
    net::configure(MS / 2, MS / 2);
    let seen: Rc<RefCell<Seen>> = Rc::new(RefCell::new(Seen::default()));
    let mut configs = Vec::new();
    for (k, s) in p.servers.iter().enumerate() {
        let addr = SocketAddr::new(server_ip(k), 53);
        // UDP side
        {
            let behaviour = s.udp;
            let seen = seen.clone();
            net::udp_node(addr, move |dg| {
                let Ok(req) = Message::from_vec(&dg.bytes) else { return vec![] };
                let qn = req.queries.first().map(|q| q.name.to_ascii()).unwrap_or_default();
                seen.borrow_mut().udp_ids.entry((k, qn)).or_default().insert(req.metadata.id);
                let (kind, lat) = match behaviour {
                    Udp::Answer(l) => (0, l),
                    Udp::NxDomain(l) => (1, l),
                    Udp::Truncated(l) => (2, l),
                    Udp::ServFail(l) => (3, l),
                    Udp::Silent | Udp::SendError => {
                        exec::count("fault.udp_silent");
                        return vec![];
                    }
                };
                vec![UdpOut { delay_ns: lat as u64 * MS, from: dg.dst, to: dg.src, bytes: respond(&req, k, false, kind) }]
            });
        }
        // TCP side
        {
            let behaviour = s.tcp;
            let seen = seen.clone();
            net::tcp_listen(addr, move |mut tcp, _peer| {
                let seen = seen.clone();
                exec::spawn("srv-tcp", async move {
                    let mut hdr = [0u8; 2];
                    let lock = Rc::new(std::cell::Cell::new(false));
                    let pending = Rc::new(std::cell::Cell::new(0u32));
                    loop {
                        if tcp.read_exact(&mut hdr).await.is_err() {
                            break;
                        }
                        let mut body = vec![0u8; u16::from_be_bytes(hdr) as usize];
                        if tcp.read_exact(&mut body).await.is_err() {
                            break;
                        }
                        let Ok(req) = Message::from_vec(&body) else { break };
                        let qn = req.queries.first().map(|q| q.name.to_ascii()).unwrap_or_default();
                        seen.borrow_mut().tcp_ids.entry((k, qn)).or_default().insert(req.metadata.id);
                        let (kind, lat) = match behaviour {
                            Tcp::Answer(l) | Tcp::AnswerClose(l) => (0, l),
                            Tcp::NxDomain(l) => (1, l),
                            Tcp::Reset => {
                                exec::count("fault.tcp_reset_after_query");
                                tcp.reset();
                                break;
                            }
                            _ => {
                                exec::count("fault.tcp_silent");
                                continue;
                            }
                        };
                        // every query is answered after its own latency (no head-of-line blocking)
                        let b = respond(&req, k, true, kind);
                        let mut frame = (b.len() as u16).to_be_bytes().to_vec();
                        frame.extend_from_slice(&b);
                        let mut w = tcp.dup();
                        let lock = lock.clone();
                        let pending = pending.clone();
                        pending.set(pending.get() + 1);
                        let closes = matches!(behaviour, Tcp::AnswerClose(_));
                        exec::spawn("srv-tcp-reply", async move {
                            exec::sleep_ns(lat as u64 * MS).await;
                            while lock.get() {
                                exec::yield_now().await;
                            }
                            lock.set(true);
                            let _ = w.write_all(&frame).await;
                            lock.set(false);
                            pending.set(pending.get() - 1);
                            if closes {
                                exec::sleep_ns(MS).await;
                                if pending.get() == 0 {
                                    exec::count("fault.tcp_server_closed_idle_connection");
                                    w.shutdown_write();
                                }
                            }
                        });
                    }
                    std::future::pending::<()>().await;
                    drop(tcp);
                });
            });
        }
        #[allow(unused_mut)]
        let mut c = match s.protocols {
            0 => NameServerConfig::udp(server_ip(k)),
            1 => NameServerConfig::tcp(server_ip(k)),
            _ => NameServerConfig::udp_and_tcp(server_ip(k)),
        };
        c.trust_negative_responses = s.trust_negative;
        for cc in c.connections.iter_mut() {
            cc.port = 53;
        }
        configs.push(c);
    }
    // transport faults addressed by destination
    {
        let servers = p.servers.clone();
        net::set_send_fault(move |_src, dst| {
            for (k, s) in servers.iter().enumerate() {
                if dst.ip() == server_ip(k) && s.udp == Udp::SendError {
                    return Some(std::io::ErrorKind::NetworkUnreachable);
                }
            }
            None
        });
        let servers = p.servers.clone();
        net::set_connect_policy(move |_c, dst, _nth| {
            for (k, s) in servers.iter().enumerate() {
                if dst.ip() == server_ip(k) {
                    return match s.tcp {
                        Tcp::Refused => ConnectVerdict::Refuse { after_ns: MS },
                        Tcp::Blackhole => ConnectVerdict::Blackhole,
                        _ => ConnectVerdict::Accept { rtt_ns: MS, c2s: PipePlan { latency_ns: MS / 2, ..Default::default() }, s2c: PipePlan { latency_ns: MS / 2, ..Default::default() } },
                    };
                }
            }
            ConnectVerdict::Refuse { after_ns: MS }
        });
    }

    let mut opts = ResolverOpts::default();
    opts.timeout = Duration::from_millis(p.timeout_ms);
    opts.num_concurrent_reqs = p.num_concurrent_reqs;
    opts.server_ordering_strategy = match p.ordering {
        0 => ServerOrderingStrategy::QueryStatistics,
        1 => ServerOrderingStrategy::UserProvidedOrder,
        _ => ServerOrderingStrategy::RoundRobin,
    };
    opts.case_randomization = false;
    if p.burst != 0 {
        // a small per-connection limit, so that TCP connections push back with `Busy`
        opts.max_active_requests = 1 + (p.burst as usize % 7);
    }
    let tls = match TlsConfig::new() {
        Ok(t) => t,
        Err(e) => {
            exec::violate("C18.harness", "", format!("tls config: {e}"));
            return;
        }
    };
    let cx = Arc::new(PoolContext::new(opts, tls));
    let pool = NameServerPool::from_config(configs, cx, SimProvider::new(CLIENT));
    let qs = questions();
    let mut ropts = DnsRequestOptions::default();
    ropts.use_edns = false;

    if p.warmup {
        let w = Query::new(Name::from_ascii("warm.example.").unwrap(), RecordType::A);
        let _ = pool.lookup(w, ropts).next().await;
        exec::sleep_ns(50 * MS).await;
    }

    #[derive(Clone, Debug)]
    struct Outcome {
        start: u64,
        end: u64,
        result: Result<(Option<Ipv4Addr>, bool), String>,
        nx: bool,
    }
    let outcomes: Rc<RefCell<BTreeMap<usize, Outcome>>> = Rc::new(RefCell::new(BTreeMap::new()));
    let cancelled = Rc::new(std::cell::Cell::new(false));
    let mut joins = Vec::new();
    for (i, qi) in p.callers.iter().enumerate() {
        let pool = pool.clone();
        let q = qs[*qi as usize % qs.len()].clone();
        let outcomes = outcomes.clone();
        let cancel_ms = p.cancel_first_ms;
        let cancelled = cancelled.clone();
        let delay = p.stagger_ms * i as u64;
        joins.push(exec::spawn(&format!("caller{i}"), async move {
            if delay > 0 {
                exec::sleep_ns(delay * MS).await;
            }
            let start = exec::now_ns();
            let r = if i == 0 && cancel_ms != 0 {
                // the caller loses interest: the lookup future is dropped in flight
                match exec::timeout(Duration::from_millis(cancel_ms), async { pool.lookup(q, ropts).next().await }).await {
                    Ok(r) => r,
                    Err(()) => {
                        exec::count("fault.caller_cancelled");
                        cancelled.set(true);
                        return;
                    }
                }
            } else {
                pool.lookup(q, ropts).next().await
            };
            let end = exec::now_ns();
            let (result, nx) = match r {
                Some(Ok(resp)) => {
                    let m = resp.answers.iter().find_map(|r| match &r.data {
                        RData::A(a) => Some(a.0),
                        _ => None,
                    });
                    (Ok((m, resp.truncation)), false)
                }
                Some(Err(e)) => {
                    let nx = matches!(&e, NetError::Dns(DnsError::NoRecordsFound(nr)) if nr.response_code == ResponseCode::NXDomain);
                    (Err(e.to_string()), nx)
                }
                None => (Err("stream ended".into()), false),
            };
            outcomes.borrow_mut().insert(i, Outcome { start, end, result, nx });
        }));
    }
    for b in 0..p.burst as usize {
        let pool = pool.clone();
        let outcomes = outcomes.clone();
        let q = Query::new(Name::from_ascii(format!("burst{b}.example.")).unwrap(), RecordType::A);
        joins.push(exec::spawn(&format!("burst{b}"), async move {
            let start = exec::now_ns();
            let r = pool.lookup(q, ropts).next().await;
            let end = exec::now_ns();
            let (result, nx) = match r {
                Some(Ok(resp)) => {
                    let m = resp.answers.iter().find_map(|r| match &r.data {
                        RData::A(a) => Some(a.0),
                        _ => None,
                    });
                    (Ok((m, resp.truncation)), false)
                }
                Some(Err(e)) => {
                    if matches!(e, NetError::Busy) {
                        exec::count("probe.busy_final");
                    }
                    (Err(e.to_string()), false)
                }
                None => (Err("stream ended".into()), false),
            };
            outcomes.borrow_mut().insert(2000 + b, Outcome { start, end, result, nx });
        }));
    }
    for j in joins {
        if exec::timeout(Duration::from_millis(p.timeout_ms * 6 + 30_000), j).await.is_err() {
            exec::violate("C18.hang", "", "a lookup was still pending long after every timer could have fired".into());
            return;
        }
    }
    if cancelled.get() {
        // the question of the caller that gave up, asked again: the abandoned exchange must not
        // be what answers it
        // (either at once, or after every timer of the abandoned exchange has run out)
        exec::sleep_ns(if p.cancel_first_ms % 20 == 10 { 5 * MS } else { (p.timeout_ms + 100) * MS }).await;
        let q = qs[p.callers[0] as usize % qs.len()].clone();
        let start = exec::now_ns();
        let r = match exec::timeout(Duration::from_millis(p.timeout_ms * 6 + 30_000), async { pool.lookup(q, ropts).next().await }).await {
            Ok(r) => r,
            Err(()) => {
                exec::violate("C18.hang", "follow-up", "the follow-up lookup was still pending long after every timer could have fired".into());
                return;
            }
        };
        let end = exec::now_ns();
        let (result, nx) = match r {
            Some(Ok(resp)) => {
                let m = resp.answers.iter().find_map(|r| match &r.data {
                    RData::A(a) => Some(a.0),
                    _ => None,
                });
                (Ok((m, resp.truncation)), false)
            }
            Some(Err(e)) => {
                let nx = matches!(&e, NetError::Dns(DnsError::NoRecordsFound(nr)) if nr.response_code == ResponseCode::NXDomain);
                (Err(e.to_string()), nx)
            }
            None => (Err("stream ended".into()), false),
        };
        exec::count("probe.follow_up_after_cancel");
        outcomes.borrow_mut().insert(1000, Outcome { start, end, result, nx });
    }
    if p.second_round_ms != 0 {
        exec::sleep_ns(p.second_round_ms * MS).await;
        let mut asked: Vec<u8> = Vec::new();
        for qi in p.callers.iter() {
            if asked.contains(qi) {
                continue;
            }
            asked.push(*qi);
            let q = qs[*qi as usize % qs.len()].clone();
            let start = exec::now_ns();
            let r = match exec::timeout(Duration::from_millis(p.timeout_ms * 6 + 30_000), async { pool.lookup(q, ropts).next().await }).await {
                Ok(r) => r,
                Err(()) => {
                    exec::violate("C18.hang", "second-round", "a second-round lookup was still pending long after every timer could have fired".into());
                    return;
                }
            };
            let end = exec::now_ns();
            let (result, nx) = match r {
                Some(Ok(resp)) => {
                    let m = resp.answers.iter().find_map(|r| match &r.data {
                        RData::A(a) => Some(a.0),
                        _ => None,
                    });
                    (Ok((m, resp.truncation)), false)
                }
                Some(Err(e)) => {
                    let nx = matches!(&e, NetError::Dns(DnsError::NoRecordsFound(nr)) if nr.response_code == ResponseCode::NXDomain);
                    (Err(e.to_string()), nx)
                }
                None => (Err("stream ended".into()), false),
            };
            exec::count("probe.second_round_lookup");
            outcomes.borrow_mut().insert(3000 + *qi as usize, Outcome { start, end, result, nx });
            exec::sleep_ns(30 * MS).await;
        }
    }
    let outcomes = outcomes.borrow();

    // ---- classification of the servers -----------------------------------------------------------
    // effective behaviour of server k as the pool drives it: UDP first when configured
    #[derive(PartialEq, Debug, Clone, Copy)]
    enum Eff {
        Healthy(u64),
        FastFail(u64),
        Slow,
    }
    let tcp_eff = |t: Tcp| match t {
        Tcp::Answer(l) | Tcp::AnswerClose(l) => Eff::Healthy(l as u64 + 3),
        Tcp::NxDomain(l) => Eff::FastFail(l as u64 + 3),
        Tcp::Refused => Eff::FastFail(3),
        Tcp::Reset => Eff::FastFail(5),
        Tcp::Blackhole | Tcp::Silent => Eff::Slow,
    };
    let eff: Vec<Eff> = p
        .servers
        .iter()
        .map(|s| match s.protocols {
            1 => match (tcp_eff(s.tcp), s.tcp) {
                (Eff::FastFail(l), Tcp::NxDomain(_)) if s.trust_negative => Eff::FastFail(l), // final NXDOMAIN: handled below
                (e, _) => e,
            },
            _ => match s.udp {
                Udp::Answer(l) => Eff::Healthy(l as u64 + 2),
                Udp::NxDomain(l) | Udp::ServFail(l) => Eff::FastFail(l as u64 + 2),
                Udp::SendError => Eff::FastFail(1),
                Udp::Silent => Eff::Slow,
                Udp::Truncated(l) => {
                    if s.protocols == 2 {
                        match tcp_eff(s.tcp) {
                            Eff::Healthy(t) => Eff::Healthy(l as u64 + t + 4),
                            Eff::FastFail(t) => Eff::FastFail(l as u64 + t + 4),
                            Eff::Slow => Eff::Slow,
                        }
                    } else {
                        // UDP only and truncated: nothing better will come from this server
                        Eff::FastFail(l as u64 + 2)
                    }
                }
            },
        })
        .collect();
    // a trusted NXDOMAIN / SERVFAIL-ish final answer legitimately ends the search
    let has_final_negative = p.servers.iter().any(|s| {
        let udp_first = s.protocols != 1;
        (udp_first && matches!(s.udp, Udp::NxDomain(_)) && s.trust_negative) || (udp_first && matches!(s.udp, Udp::ServFail(_))) || (matches!(s.tcp, Tcp::NxDomain(_)) && s.trust_negative && (s.protocols == 1 || (s.protocols == 2 && matches!(s.udp, Udp::Truncated(_)))))
    });
    // After one truncated UDP reply the pool stops using UDP for the rest of that request (all
    // servers serve the same data, so the others would truncate as well): from then on only a
    // server that answers over TCP counts as healthy.
    let any_truncating = p.servers.iter().any(|s| s.protocols != 1 && matches!(s.udp, Udp::Truncated(_)));
    let eff: Vec<Eff> = eff
        .iter()
        .zip(p.servers.iter())
        .map(|(e, s)| {
            if any_truncating && s.protocols != 1 {
                // this server may be asked over UDP first and again over TCP once UDP is off
                let udp_ms = match s.udp {
                    Udp::Answer(l) | Udp::NxDomain(l) | Udp::Truncated(l) | Udp::ServFail(l) => l as u64 + 2,
                    Udp::SendError => 1,
                    Udp::Silent => return Eff::Slow,
                };
                if s.protocols == 0 {
                    return if matches!(e, Eff::Healthy(_)) { Eff::Slow } else { *e };
                }
                match tcp_eff(s.tcp) {
                    Eff::Healthy(t) => Eff::Healthy(udp_ms + t + 4),
                    Eff::FastFail(t) => {
                        if matches!(e, Eff::Healthy(_)) {
                            Eff::Slow
                        } else {
                            Eff::FastFail(udp_ms + t + 4)
                        }
                    }
                    Eff::Slow => Eff::Slow,
                }
            } else {
                *e
            }
        })
        .collect();
    let has_final_negative = has_final_negative || (any_truncating && p.servers.iter().any(|s| s.protocols != 0 && matches!(s.tcp, Tcp::NxDomain(_)) && s.trust_negative));
    let any_healthy = eff.iter().any(|e| matches!(e, Eff::Healthy(_)));
    let none_slow = !eff.iter().any(|e| *e == Eff::Slow);
    let total_ms: u64 = eff
        .iter()
        .map(|e| match e {
            Eff::Healthy(l) | Eff::FastFail(l) => *l,
            Eff::Slow => 0,
        })
        .sum();
    // (with a truncating server in the mix, which servers are re-asked over TCP depends on the
    // order they were tried in, which the statement does not fix: availability is not judged there)
    let unambiguous_plain = any_healthy && !has_final_negative && none_slow && !any_truncating && total_ms * 2 < p.timeout_ms;
    // With a truncating server in the mix the only thing the statement fixes is this: once UDP
    // is off, a server that answers over TCP can still answer, so if one exists, nothing can
    // stall (no silent UDP, no black-holed or silent TCP anywhere) and no server ends the search
    // with a trusted negative answer, the lookup succeeds whatever the order.
    // (healthy = no transport fault on any protocol it is configured for; a truncated UDP reply
    // is not a fault, it is the cue for TCP)
    let tcp_healthy = p.servers.iter().any(|s| matches!(s.tcp, Tcp::Answer(_) | Tcp::AnswerClose(_)) && (s.protocols == 1 || (s.protocols == 2 && matches!(s.udp, Udp::Answer(_) | Udp::Truncated(_)))));
    let nothing_stalls = p.servers.iter().all(|s| (s.protocols == 1 || !matches!(s.udp, Udp::Silent)) && (s.protocols == 0 || !matches!(s.tcp, Tcp::Blackhole | Tcp::Silent)));
    let any_negative = p.servers.iter().any(|s| (s.protocols != 1 && matches!(s.udp, Udp::NxDomain(_) | Udp::ServFail(_))) || (s.protocols != 0 && matches!(s.tcp, Tcp::NxDomain(_))));
    let worst_ms: u64 = p
        .servers
        .iter()
        .map(|s| {
            let u = if s.protocols != 1 {
                match s.udp {
                    Udp::Answer(l) | Udp::NxDomain(l) | Udp::Truncated(l) | Udp::ServFail(l) => l as u64 + 2,
                    _ => 1,
                }
            } else {
                0
            };
            let t = if s.protocols != 0 {
                match s.tcp {
                    Tcp::Answer(l) | Tcp::AnswerClose(l) | Tcp::NxDomain(l) => l as u64 + 5,
                    _ => 5,
                }
            } else {
                0
            };
            u + t
        })
        .sum();
    let unambiguous_trunc = any_truncating && tcp_healthy && nothing_stalls && !any_negative && worst_ms * 2 < p.timeout_ms;
    if unambiguous_trunc {
        exec::count("probe.availability_judged_with_truncation");
    }
    // (under a burst the pool may legitimately give up on `Busy` after its back-off: only the
    // deadline, termination and routing clauses are judged then)
    let unambiguous = (unambiguous_plain || unambiguous_trunc) && p.burst == 0;
    // a server that closes idle connections can close one just as a concurrent or back-to-back
    // request is written to it: only the spaced, sequential second round is judged for
    // availability then
    let idle_closer = p.servers.iter().any(|s| s.protocols != 0 && matches!(s.tcp, Tcp::AnswerClose(_)));

    for (i, o) in outcomes.iter() {
        let took = o.end - o.start;
        // (a) deadline
        if took > p.timeout_ms * MS + 10 * MS {
            let kind = if p.servers.iter().any(|s| matches!(s.udp, Udp::Truncated(_))) { "with-tcp-fallback" } else { "plain" };
            if exec::violate("C18.deadline", kind, format!("caller {i}: lookup returned after {} ms, configured timeout {} ms (result {:?})", took / MS, p.timeout_ms, o.result)) {
                return;
            }
        }
        match &o.result {
            Ok((m, truncated)) => {
                exec::count("probe.lookup_ok");
                // (c) a truncated reply is never the final answer when TCP works
                if *truncated {
                    if exec::violate("C18.truncated-final", "", format!("caller {i}: the final answer has TC set")) {
                        return;
                    }
                }
                if let Some(ip) = m {
                    let o3 = ip.octets();
                    let k = o3[2] as usize - 1;
                    if let Some(s) = p.servers.get(k) {
                        let via_tcp = o3[3] == 2;
                        if via_tcp && s.protocols != 1 {
                            exec::count("probe.tc_to_tcp_fallback");
                        }
                        if !via_tcp && matches!(s.udp, Udp::Truncated(_)) {
                            if exec::violate("C18.truncated-final", "udp-marker", format!("caller {i}: answer marker says UDP from a server that only sends truncated UDP replies")) {
                                return;
                            }
                        }
                    }
                }
            }
            Err(e) => {
                exec::count("probe.lookup_err");
                // (b) availability where unambiguous; (d) untrusted NXDOMAIN must not end the search
                if unambiguous && (!idle_closer || *i >= 3000) {
                    let inv = if o.nx { "C18.untrusted-nxdomain-final" } else { "C18.unavailable" };
                    let shape = if *i == 1000 { "follow-up-after-cancel" } else if *i >= 3000 { "second-round" } else if any_truncating { "after-truncation" } else { "" };
                    if exec::violate(inv, shape, format!("caller {i}: {e} although a healthy server exists and every server answers or fails fast (sum {total_ms} ms of {} ms); servers {:?}", p.timeout_ms, p.servers)) {
                        return;
                    }
                }
            }
        }
    }
    // (e) identical concurrent requests share one upstream exchange
    if p.stagger_ms == 0 && !p.warmup && p.cancel_first_ms == 0 && p.second_round_ms == 0 {
        let by_q: BTreeMap<u8, Vec<usize>> = p.callers.iter().enumerate().fold(BTreeMap::new(), |mut m, (i, q)| {
            m.entry(*q).or_default().push(i);
            m
        });
        for (q, callers) in by_q {
            if callers.len() < 2 {
                continue;
            }
            exec::count("probe.shared_lookup_groups");
            let results: Vec<String> = callers.iter().map(|i| format!("{:?}", outcomes.get(i).map(|o| &o.result))).collect();
            if results.iter().any(|r| *r != results[0]) {
                if exec::violate("C18.sharing", "results-differ", format!("identical concurrent requests got different results: {results:?}")) {
                    return;
                }
            }
            let qn = qs[q as usize % qs.len()].name.to_ascii();
            let seen = seen.borrow();
            for k in 0..p.servers.len() {
                let u = seen.udp_ids.get(&(k, qn.clone())).map(|s| s.len()).unwrap_or(0);
                let t = seen.tcp_ids.get(&(k, qn.clone())).map(|s| s.len()).unwrap_or(0);
                // one exchange per protocol (a reconnect after a reset may add one more TCP id)
                if u > 1 || t > 2 {
                    if exec::violate("C18.sharing", "duplicate-upstream-exchange", format!("server {k} saw {u} distinct UDP and {t} distinct TCP exchanges for one shared question asked by {} concurrent callers", callers.len())) {
                        return;
                    }
                }
            }
        }
    }
}

pub fn def() -> CheckDef {
    CheckDef { id: "C18", level: "exploration", parts: vec![Box::new(PoolPart)] }
}
