//! Independent RFC 8945 checker over raw message bytes (section 4.3.3 "digest components"):
//! own wire walker, own MAC-input reconstruction, HMAC straight from `ring`.  Uses none of
//! hickory's `signed_bitmessage_to_buf` / `verify_message_byte` / `Message` parser.

use ring::hmac;

#[derive(Debug, Clone)]
pub struct TsigView {
    /// offset of the first byte of the TSIG RR (its owner name)
    pub start: usize,
    /// offset one past the TSIG RR
    pub end: usize,
    /// owner name, uncompressed lower-cased wire form
    pub key_name: Vec<u8>,
    pub class: u16,
    pub ttl: u32,
    pub alg_name: Vec<u8>,
    pub time: u64,
    pub fudge: u16,
    pub mac: Vec<u8>,
    pub orig_id: u16,
    pub error: u16,
    pub other: Vec<u8>,
    /// offsets of the fields inside the message (for structured tampering)
    pub off_time: usize,
    pub off_fudge: usize,
    pub off_mac_len: usize,
    pub off_orig_id: usize,
    pub off_error: usize,
    pub off_other_len: usize,
    pub off_rdlen: usize,
}

#[derive(Debug, Clone, PartialEq, Eq)]
pub enum Located {
    /// structurally broken before the end of the sections
    Malformed(&'static str),
    /// well-formed, the last RR of the additional section is not a TSIG (or ARCOUNT = 0)
    NoTsig,
    /// a TSIG RR exists but is not the last RR / bytes follow it
    NotLast,
}

/// reads a possibly compressed name at `pos`; returns (lower-cased uncompressed wire form, offset after the name in the stream)
pub fn read_name(msg: &[u8], mut pos: usize) -> Result<(Vec<u8>, usize), &'static str> {
    let mut out = Vec::new();
    let mut after: Option<usize> = None;
    let mut jumps = 0;
    loop {
        let len = *msg.get(pos).ok_or("name runs off the message")? as usize;
        if len & 0xC0 == 0xC0 {
            let b2 = *msg.get(pos + 1).ok_or("pointer runs off the message")? as usize;
            if after.is_none() {
                after = Some(pos + 2);
            }
            pos = ((len & 0x3F) << 8) | b2;
            jumps += 1;
            if jumps > 64 {
                return Err("pointer loop");
            }
            continue;
        }
        if len & 0xC0 != 0 {
            return Err("bad label type");
        }
        if len == 0 {
            out.push(0);
            pos += 1;
            break;
        }
        let l = msg.get(pos + 1..pos + 1 + len).ok_or("label runs off the message")?;
        out.push(len as u8);
        out.extend(l.iter().map(|b| b.to_ascii_lowercase()));
        pos += 1 + len;
        if out.len() > 255 {
            return Err("name too long");
        }
    }
    Ok((out, after.unwrap_or(pos)))
}

fn u16_at(msg: &[u8], o: usize) -> Result<u16, &'static str> {
    msg.get(o..o + 2).map(|b| u16::from_be_bytes([b[0], b[1]])).ok_or("short")
}

/// walks the whole message; finds the TSIG RR if it is the very last thing in the message
pub fn locate_tsig(msg: &[u8]) -> Result<TsigView, Located> {
    if msg.len() < 12 {
        return Err(Located::Malformed("short header"));
    }
    let qd = u16_at(msg, 4).unwrap() as usize;
    let an = u16_at(msg, 6).unwrap() as usize;
    let ns = u16_at(msg, 8).unwrap() as usize;
    let ar = u16_at(msg, 10).unwrap() as usize;
    let mut pos = 12;
    for _ in 0..qd {
        let (_, p) = read_name(msg, pos).map_err(Located::Malformed)?;
        pos = p + 4;
        if pos > msg.len() {
            return Err(Located::Malformed("question runs off"));
        }
    }
    let total = an + ns + ar;
    let mut last: Option<(usize, usize, u16)> = None; // (start, end, type)
    let mut tsig_seen_before_last = false;
    for i in 0..total {
        let start = pos;
        let (_, p) = read_name(msg, pos).map_err(Located::Malformed)?;
        let rtype = u16_at(msg, p).map_err(Located::Malformed)?;
        let rdlen = u16_at(msg, p + 8).map_err(Located::Malformed)? as usize;
        let end = p + 10 + rdlen;
        if end > msg.len() {
            return Err(Located::Malformed("rdata runs off"));
        }
        if rtype == 250 && i + 1 != total {
            tsig_seen_before_last = true;
        }
        last = Some((start, end, rtype));
        pos = end;
    }
    let trailing = msg.len() - pos;
    let Some((start, end, rtype)) = last else { return Err(Located::NoTsig) };
    if ar == 0 || rtype != 250 {
        return Err(if tsig_seen_before_last { Located::NotLast } else { Located::NoTsig });
    }
    if trailing != 0 || tsig_seen_before_last {
        return Err(Located::NotLast);
    }
    // parse the TSIG RR
    let (key_name, p) = read_name(msg, start).map_err(Located::Malformed)?;
    let class = u16_at(msg, p + 2).map_err(Located::Malformed)?;
    let ttl = msg.get(p + 4..p + 8).map(|b| u32::from_be_bytes([b[0], b[1], b[2], b[3]])).ok_or(Located::Malformed("short"))?;
    let off_rdlen = p + 8;
    let rd = p + 10;
    let (alg_name, q) = read_name(msg, rd).map_err(Located::Malformed)?;
    if q + 10 > end {
        return Err(Located::Malformed("tsig rdata short"));
    }
    let time = ((u16_at(msg, q).unwrap() as u64) << 32) | ((u16_at(msg, q + 2).unwrap() as u64) << 16) | u16_at(msg, q + 4).unwrap() as u64;
    let fudge = u16_at(msg, q + 6).unwrap();
    let mac_len = u16_at(msg, q + 8).unwrap() as usize;
    let m = q + 10;
    if m + mac_len + 6 > end {
        return Err(Located::Malformed("tsig mac runs off"));
    }
    let mac = msg[m..m + mac_len].to_vec();
    let o = m + mac_len;
    let orig_id = u16_at(msg, o).unwrap();
    let error = u16_at(msg, o + 2).unwrap();
    let other_len = u16_at(msg, o + 4).unwrap() as usize;
    if o + 6 + other_len != end {
        return Err(Located::Malformed("tsig other data length"));
    }
    let other = msg[o + 6..end].to_vec();
    Ok(TsigView { start, end, key_name, class, ttl, alg_name, time, fudge, mac, orig_id, error, other, off_time: q, off_fudge: q + 6, off_mac_len: q + 8, off_orig_id: o, off_error: o + 2, off_other_len: o + 4, off_rdlen })
}

pub fn wire_name(s: &str) -> Vec<u8> {
    let mut out = Vec::new();
    for l in s.trim_end_matches('.').split('.') {
        if l.is_empty() {
            continue;
        }
        out.push(l.len() as u8);
        out.extend(l.bytes().map(|b| b.to_ascii_lowercase()));
    }
    out.push(0);
    out
}

#[derive(Debug, Clone, PartialEq, Eq)]
pub enum RefVerdict {
    /// no (usable) TSIG at the end of the message
    Unsigned(Located),
    /// signed by something that is not the configured (name, algorithm) pair
    WrongKey,
    /// MAC does not verify at full length over the exact bytes
    BadMac,
    /// MAC verifies; time window still to be judged by the caller
    Valid { time: u64, fudge: u16, mac: Vec<u8> },
}

/// RFC 8945 4.3.3 digest components for a request (or, with `prior_mac`, for the first response)
pub fn mac_input(msg: &[u8], v: &TsigView, prior_mac: Option<&[u8]>) -> Vec<u8> {
    let mut d = Vec::with_capacity(msg.len() + 64);
    if let Some(pm) = prior_mac {
        d.extend_from_slice(&(pm.len() as u16).to_be_bytes());
        d.extend_from_slice(pm);
    }
    // the message without the TSIG RR, ARCOUNT decremented, original id restored
    let mut head = msg[..12].to_vec();
    head[0..2].copy_from_slice(&v.orig_id.to_be_bytes());
    let ar = u16::from_be_bytes([msg[10], msg[11]]).wrapping_sub(1);
    head[10..12].copy_from_slice(&ar.to_be_bytes());
    d.extend_from_slice(&head);
    d.extend_from_slice(&msg[12..v.start]);
    // TSIG variables
    d.extend_from_slice(&v.key_name);
    d.extend_from_slice(&v.class.to_be_bytes());
    d.extend_from_slice(&v.ttl.to_be_bytes());
    d.extend_from_slice(&v.alg_name);
    d.extend_from_slice(&[(v.time >> 40) as u8, (v.time >> 32) as u8, (v.time >> 24) as u8, (v.time >> 16) as u8, (v.time >> 8) as u8, v.time as u8]);
    d.extend_from_slice(&v.fudge.to_be_bytes());
    d.extend_from_slice(&v.error.to_be_bytes());
    d.extend_from_slice(&(v.other.len() as u16).to_be_bytes());
    d.extend_from_slice(&v.other);
    d
}

/// `keys`: configured (key name, secret) pairs, all HMAC-SHA256
pub fn ref_verify(msg: &[u8], keys: &[(&str, &[u8])], prior_mac: Option<&[u8]>) -> RefVerdict {
    let v = match locate_tsig(msg) {
        Ok(v) => v,
        Err(l) => return RefVerdict::Unsigned(l),
    };
    let Some((_, secret)) = keys.iter().find(|(n, _)| wire_name(n) == v.key_name) else { return RefVerdict::WrongKey };
    if v.alg_name != wire_name("hmac-sha256") {
        return RefVerdict::WrongKey;
    }
    if v.class != 255 || v.ttl != 0 {
        // RFC 8945 4.2: CLASS must be ANY, TTL must be 0
        return RefVerdict::BadMac;
    }
    let key = hmac::Key::new(hmac::HMAC_SHA256, secret);
    let tag = hmac::sign(&key, &mac_input(msg, &v, prior_mac));
    if v.mac.len() != 32 || tag.as_ref() != &v.mac[..] {
        return RefVerdict::BadMac;
    }
    RefVerdict::Valid { time: v.time, fudge: v.fudge, mac: v.mac.clone() }
}
