//! C07 — Secure implies an unbroken chain to a trust anchor; tampering never yields Secure nor a
//! silent downgrade to Insecure.
//!
//! A generated hierarchy root → tld → leaf (+ unsigned child, island of security, unsupported-DS
//! child) of real signed zones; the real validator's sub-queries (DNSKEY, DS, NS probes) are
//! independent exchanges with scheduler-decided order; 1-3 tampering faults per run addressed
//! to a class of exchange.

use std::collections::BTreeMap;
use std::sync::{Arc, Mutex};
use std::time::Duration;

use futures_util::stream::StreamExt;
use hickory_net::dnssec::DnssecDnsHandle;
use hickory_net::xfer::DnsHandle;
use hickory_net::{DnsError, NetError};
use hickory_proto::dnssec::rdata::{DNSSECRData, DNSKEY, DS, RRSIG};
use hickory_proto::dnssec::{Algorithm, DigestType, DnssecSigner, Proof};
use hickory_proto::op::{DnsRequestOptions, Message, Query, ResponseCode};
use hickory_proto::rr::rdata::{A, CNAME, NS, SOA, TXT};
use hickory_proto::rr::{DNSClass, Name, RData, Record, RecordSet, RecordType};
use hsim::exec::{self, SimConfig};
use hsim::rng::mix;
use hsim::supervisor::{CheckDef, Describe, Part, Report, Tier};
use hsim::Rng;
use serde::{Deserialize, Serialize};
use serde_json::Value;
use time::OffsetDateTime;

use super::dnssec::{anchors_for, build_zone, ds_for, truth_of, KeyRef, Nx, Router, Truth, World, ZoneSpec};
use super::update::finish;

pub(super) fn n(s: &str) -> Name {
    Name::from_ascii(s).unwrap()
}

#[derive(Serialize, Deserialize, Clone, Copy, Debug, PartialEq, Eq, PartialOrd, Ord)]
pub(super) enum Fault {
    Alter(u8),
    Remove(u8),
    InjectUnsigned,
    InjectAttackerSigned,
    AttackerDnskeys,
    ReplaceDs,
    StripRrsigs,
    StripDenial,
    FlipRcode,
    Drop,
    /// pretend a zone cut: put an NS RRset owned by the probed name into an NS-probe response
    ForgeNs,
    /// strip the RRSIGs and alter the data of the answer
    StripAndAlter,
    /// add an unsigned DS of the attacker's key under a foreign owner name to a DS response
    InjectForeignDs,
    /// reverse the order of the records of the answer section (order is not signed)
    ReorderAnswer,
    /// replace the answer by forged data signed by the operator of the sibling zone sib.tld.
    /// with that zone's own, validly chained key (signer name sib.tld.)
    InjectSiblingSigned,
}

#[derive(Serialize, Deserialize, Clone, Copy, Debug, PartialEq, Eq, PartialOrd, Ord)]
pub(super) enum Class {
    /// the exchange carrying the user's own question
    Main,
    Dnskey,
    Ds,
    /// the validator's unvalidated NS probes
    NsProbe,
}

#[derive(Serialize, Deserialize, Clone, Debug)]
pub(super) struct FaultAt {
    pub(super) class: Class,
    /// k-th exchange of that class within the run (`255` = every one)
    pub(super) occurrence: u8,
    pub(super) fault: Fault,
    /// only exchanges whose question name is this one (empty = any)
    #[serde(default)]
    pub(super) qname: String,
}

#[derive(Serialize, Deserialize, Clone, Debug)]
pub(super) struct Plan {
    pub(super) sim: SimConfig,
    pub(super) nsec3: [bool; 3],
    pub(super) iterations: u16,
    pub(super) opt_out: bool,
    /// tld signed with the two key-tag-colliding keys
    pub(super) tld_collision_keys: bool,
    pub(super) leaf_key_alg: u8,
    pub(super) queries: Vec<usize>,
    pub(super) concurrent: bool,
    pub(super) faults: Vec<FaultAt>,
    /// the DS RRset of leaf.tld. additionally holds a DS with an unsupported algorithm
    #[serde(default)]
    pub(super) mixed_ds: bool,
}

pub(super) struct Names {
    pub(super) queries: Vec<(Query, &'static str)>,
}

/// (query, expected security of the owner zone)
pub(super) fn all_queries() -> Names {
    let q = |s: &str, t: RecordType| Query::new(n(s), t);
    Names {
        queries: vec![
            (q("www.leaf.tld.", RecordType::A), "secure"),
            (q("txt.leaf.tld.", RecordType::TXT), "secure"),
            (q("alias.leaf.tld.", RecordType::A), "secure"),
            (q("leaf.tld.", RecordType::NS), "secure"),
            (q("x.w.leaf.tld.", RecordType::A), "secure"),
            (q("ns.tld.", RecordType::A), "secure"),
            (q("tld.", RecordType::SOA), "secure"),
            (q("leaf.tld.", RecordType::DS), "secure"),
            (q("www.plain.tld.", RecordType::A), "insecure"),
            (q("www.island.tld.", RecordType::A), "insecure"),
            (q("www.badalg.tld.", RecordType::A), "insecure"),
            (q("www.unsigned.", RecordType::A), "insecure"),
            (q("leaf.tld.", RecordType::DNSKEY), "secure"),
            // names that do not exist in a signed zone: the genuine outcome is a validated denial
            (q("nope.leaf.tld.", RecordType::A), "secure-nx"),
            (q("nope.tld.", RecordType::A), "secure-nx"),
            (q("deep.nope.leaf.tld.", RecordType::A), "secure-nx"),
            // aliases across the secure / insecure border (the resolver behind the server chases them)
            (q("ext.plain.tld.", RecordType::A), "insecure-alias"),
            (q("extnx.plain.tld.", RecordType::A), "insecure-alias-nx"),
            (q("out.leaf.tld.", RecordType::A), "secure-alias-out"),
        ],
    }
}

fn soa(origin: &Name) -> Record {
    Record::from_rdata(origin.clone(), 3600, RData::SOA(SOA::new(n("ns.").append_domain(origin).unwrap_or_else(|_| n("ns.")), n("admin.").append_domain(origin).unwrap_or_else(|_| n("admin.")), 1, 3600, 600, 86400, 60)))
}

fn a(name: &str, last: u8) -> Record {
    Record::from_rdata(n(name), 300, RData::A(A::new(192, 0, 2, last)))
}

fn ns(owner: &str, target: &str) -> Record {
    Record::from_rdata(n(owner), 3600, RData::NS(NS(n(target))))
}

fn nx(p: &Plan, level: usize) -> Nx {
    if p.nsec3[level] {
        // (opt-out is not used at the root: the server's DS-absence proof for a root zone with
        // opt-out is incomplete, which is a C09 matter and recorded there)
        Nx::Nsec3 { salt: vec![0xab, 0xcd], iterations: p.iterations, opt_out: p.opt_out && level != 0 }
    } else {
        Nx::Nsec
    }
}

pub(super) fn build_world(p: &Plan) -> (World, Vec<KeyRef>) {
    let root_key = KeyRef::ed(0);
    let tld_keys = if p.tld_collision_keys {
        vec![KeyRef { file: "ed25519-coll-a.pk8".into(), alg: "ed25519".into() }, KeyRef { file: "ed25519-coll-b.pk8".into(), alg: "ed25519".into() }]
    } else {
        vec![KeyRef::ed(1)]
    };
    let leaf_key = match p.leaf_key_alg {
        1 => KeyRef { file: "rsa-2048-1.pk8".into(), alg: "rsa".into() },
        2 => KeyRef { file: "ecdsa-p256-0.pk8".into(), alg: "ecdsa".into() },
        _ => KeyRef::ed(2),
    };
    let island_key = KeyRef::ed(3);
    let dur = 86_400;

    // root
    let ro = Name::root();
    let mut root_recs = vec![soa(&ro), ns(".", "a.root."), a("a.root.", 1), ns("tld.", "ns.tld."), a("ns.tld.", 2), ns("unsigned.", "ns.unsigned."), a("ns.unsigned.", 3)];
    for k in &tld_keys {
        root_recs.push(ds_for(k, &n("tld.")));
    }
    let root = ZoneSpec { origin: ro, records: root_recs, nx: nx(p, 0), keys: vec![root_key.clone()], sig_duration_s: dur };

    // tld
    let to = n("tld.");
    let mut tld_recs = vec![
        soa(&to),
        ns("tld.", "ns.tld."),
        a("ns.tld.", 2),
        ns("leaf.tld.", "ns.leaf.tld."),
        a("ns.leaf.tld.", 4),
        ds_for(&leaf_key, &n("leaf.tld.")),
        ns("plain.tld.", "ns.plain.tld."),
        a("ns.plain.tld.", 5),
        ns("island.tld.", "ns.island.tld."),
        a("ns.island.tld.", 6),
        ns("badalg.tld.", "ns.badalg.tld."),
        a("ns.badalg.tld.", 7),
        // a second, legitimately signed child: whoever runs it holds a key with a valid chain
        ns("sib.tld.", "ns.sib.tld."),
        a("ns.sib.tld.", 8),
        ds_for(&KeyRef::ed(4), &n("sib.tld.")),
    ];
    if p.mixed_ds {
        tld_recs.push(Record::from_rdata(n("leaf.tld."), 3600, RData::DNSSEC(DNSSECRData::DS(DS::new(4712, Algorithm::Unknown(201), DigestType::SHA256, vec![9u8; 32])))));
    }
    // a DS whose algorithm the validator does not support: the child is to be treated as insecure
    tld_recs.push(Record::from_rdata(n("badalg.tld."), 3600, RData::DNSSEC(DNSSECRData::DS(DS::new(4711, Algorithm::Unknown(200), DigestType::SHA256, vec![7u8; 32])))));
    let tld = ZoneSpec { origin: to, records: tld_recs, nx: nx(p, 1), keys: tld_keys, sig_duration_s: dur };

    // leaf
    let lo = n("leaf.tld.");
    let leaf_recs = vec![
        soa(&lo),
        ns("leaf.tld.", "ns.leaf.tld."),
        a("ns.leaf.tld.", 4),
        a("www.leaf.tld.", 10),
        a("www.leaf.tld.", 11),
        Record::from_rdata(n("txt.leaf.tld."), 300, RData::TXT(TXT::new(vec!["leaf".to_string()]))),
        Record::from_rdata(n("alias.leaf.tld."), 300, RData::CNAME(CNAME(n("www.leaf.tld.")))),
        a("*.w.leaf.tld.", 12),
        // a signed alias that leaves the signed world
        Record::from_rdata(n("out.leaf.tld."), 300, RData::CNAME(CNAME(n("www.plain.tld.")))),
    ];
    let leaf = ZoneSpec { origin: lo, records: leaf_recs, nx: nx(p, 2), keys: vec![leaf_key], sig_duration_s: dur };

    let mk_unsigned = |origin: &str, last: u8| {
        let o = n(origin);
        ZoneSpec {
            origin: o.clone(),
            records: vec![
                soa(&o),
                ns(origin, &format!("ns.{origin}")),
                a(&format!("ns.{origin}"), last),
                a(&format!("www.{origin}"), last + 100),
                // unsigned aliases into the signed world: to data that exists, to a name that does not
                Record::from_rdata(n(&format!("ext.{origin}")), 300, RData::CNAME(CNAME(n("www.leaf.tld.")))),
                Record::from_rdata(n(&format!("extnx.{origin}")), 300, RData::CNAME(CNAME(n("nope.leaf.tld.")))),
            ],
            nx: Nx::Nsec,
            keys: vec![],
            sig_duration_s: dur,
        }
    };
    let plain = mk_unsigned("plain.tld.", 5);
    let badalg = mk_unsigned("badalg.tld.", 7);
    let unsigned = mk_unsigned("unsigned.", 3);
    let mut island = mk_unsigned("island.tld.", 6);
    island.keys = vec![island_key];

    let mut sib = mk_unsigned("sib.tld.", 8);
    sib.keys = vec![KeyRef::ed(4)];

    let zones = [root, tld, leaf, plain, island, badalg, unsigned, sib].iter().map(build_zone).collect();
    (World { zones }, vec![root_key])
}

fn attacker_signer(zone: &Name) -> DnssecSigner {
    let key = KeyRef::ed(5).load();
    let dnskey = DNSKEY::from_key(&key.to_public_key().unwrap());
    DnssecSigner::new(dnskey, key, zone.clone(), Duration::from_secs(86_400))
}

fn attacker_sign(owner: &Name, rtype: RecordType, rdatas: Vec<RData>, ttl: u32, zone: &Name) -> Vec<Record> {
    let mut set = RecordSet::new(owner.clone(), rtype, 0);
    for d in rdatas {
        set.insert(Record::from_rdata(owner.clone(), ttl, d), 0);
    }
    let signer = attacker_signer(zone);
    let now = OffsetDateTime::now_utc();
    let mut out: Vec<Record> = set.records_without_rrsigs().cloned().collect();
    if let Ok(sig) = RRSIG::from_rrset(&set, DNSClass::IN, now, &signer) {
        out.push(Record::from_rdata(owner.clone(), ttl, RData::DNSSEC(DNSSECRData::RRSIG(sig))));
    }
    out
}

pub(super) fn zone_of_owner(world: &World, owner: &Name) -> Name {
    world.zones.iter().filter(|z| z.origin.zone_of(owner)).map(|z| z.origin.clone()).max_by_key(|o| o.num_labels()).unwrap_or_else(Name::root)
}

pub(super) fn apply_fault(world: &World, q: &Query, orig: &Message, f: Fault) -> Option<Option<Message>> {
    let mut m = orig.clone();
    let zone = zone_of_owner(world, &q.name);
    match f {
        Fault::Drop => return Some(None),
        Fault::Alter(sel) => {
            let idxs: Vec<usize> = m.answers.iter().enumerate().filter(|(_, r)| matches!(r.data, RData::A(_) | RData::TXT(_) | RData::NS(_) | RData::CNAME(_))).map(|(i, _)| i).collect();
            let i = *idxs.get(sel as usize % idxs.len().max(1))?;
            m.answers[i].data = match &m.answers[i].data {
                RData::A(x) => RData::A(A::new(198, 51, 100, x.0.octets()[3])),
                RData::TXT(_) => RData::TXT(TXT::new(vec!["evil".to_string()])),
                RData::NS(_) => RData::NS(NS(n("ns.attacker."))),
                RData::CNAME(_) => RData::CNAME(CNAME(n("www.attacker."))),
                _ => return None,
            };
        }
        Fault::Remove(sel) => {
            let total = m.answers.len() + m.authorities.len();
            if total == 0 {
                return None;
            }
            let i = sel as usize % total;
            if i < m.answers.len() {
                m.answers.remove(i);
            } else {
                m.authorities.remove(i - m.answers.len());
            }
        }
        Fault::InjectUnsigned => {
            m.answers.push(Record::from_rdata(q.name.clone(), 300, RData::A(A::new(198, 51, 100, 66))));
        }
        Fault::InjectAttackerSigned => {
            m.answers.retain(|r| !(r.name == q.name && (r.record_type() == q.query_type || matches!(&r.data, RData::DNSSEC(DNSSECRData::RRSIG(s)) if s.input().type_covered == q.query_type))));
            let data = match q.query_type {
                RecordType::A => RData::A(A::new(198, 51, 100, 77)),
                RecordType::TXT => RData::TXT(TXT::new(vec!["evil".to_string()])),
                _ => return None,
            };
            m.answers.extend(attacker_sign(&q.name, q.query_type, vec![data], 300, &zone));
        }
        Fault::InjectSiblingSigned => {
            let sibz = n("sib.tld.");
            if sibz.zone_of(&q.name) {
                return None;
            }
            m.answers.retain(|r| !(r.name == q.name && (r.record_type() == q.query_type || matches!(&r.data, RData::DNSSEC(DNSSECRData::RRSIG(s)) if s.input().type_covered == q.query_type))));
            let data = match q.query_type {
                RecordType::A => RData::A(A::new(198, 51, 100, 78)),
                RecordType::TXT => RData::TXT(TXT::new(vec!["evil-sibling".to_string()])),
                _ => return None,
            };
            let key = KeyRef::ed(4).load();
            let dnskey = DNSKEY::from_key(&key.to_public_key().ok()?);
            let signer = DnssecSigner::new(dnskey, key, sibz, Duration::from_secs(86_400));
            let mut set = RecordSet::new(q.name.clone(), q.query_type, 0);
            set.insert(Record::from_rdata(q.name.clone(), 300, data), 0);
            m.answers.extend(set.records_without_rrsigs().cloned());
            if let Ok(sig) = RRSIG::from_rrset(&set, DNSClass::IN, OffsetDateTime::now_utc(), &signer) {
                m.answers.push(Record::from_rdata(q.name.clone(), 300, RData::DNSSEC(DNSSECRData::RRSIG(sig))));
            }
            m.metadata.response_code = hickory_proto::op::ResponseCode::NoError;
            m.authorities.clear();
        }
        Fault::AttackerDnskeys => {
            if q.query_type != RecordType::DNSKEY {
                return None;
            }
            let signer = attacker_signer(&q.name);
            let dk = RData::DNSSEC(DNSSECRData::DNSKEY(signer.key().to_public_key().map(|p| DNSKEY::from_key(&p)).ok()?));
            m.answers = attacker_sign(&q.name, RecordType::DNSKEY, vec![dk], 3600, &q.name);
        }
        Fault::ReplaceDs => {
            if q.query_type != RecordType::DS {
                return None;
            }
            let mut any = false;
            let att = ds_for(&KeyRef::ed(5), &q.name);
            for r in m.answers.iter_mut() {
                if r.record_type() == RecordType::DS {
                    r.data = att.data.clone();
                    any = true;
                }
            }
            if !any {
                // there was no DS: invent one
                m.answers.push(att);
                m.authorities.clear();
            }
        }
        Fault::StripRrsigs => {
            let before = m.answers.len() + m.authorities.len();
            m.answers.retain(|r| r.record_type() != RecordType::RRSIG);
            m.authorities.retain(|r| r.record_type() != RecordType::RRSIG);
            m.additionals.retain(|r| r.record_type() != RecordType::RRSIG);
            if m.answers.len() + m.authorities.len() == before {
                return None;
            }
        }
        Fault::StripDenial => {
            let before = m.authorities.len();
            m.authorities.retain(|r| !matches!(r.record_type(), RecordType::NSEC | RecordType::NSEC3) && !matches!(&r.data, RData::DNSSEC(DNSSECRData::RRSIG(s)) if matches!(s.input().type_covered, RecordType::NSEC | RecordType::NSEC3)));
            if m.authorities.len() == before {
                return None;
            }
        }
        Fault::FlipRcode => {
            m.metadata.response_code = if m.metadata.response_code == ResponseCode::NoError { ResponseCode::NXDomain } else { ResponseCode::NoError };
        }
        Fault::ForgeNs => {
            if q.query_type != RecordType::NS {
                return None;
            }
            m.metadata.response_code = ResponseCode::NoError;
            m.answers = vec![Record::from_rdata(q.name.clone(), 300, RData::NS(NS(n("ns.attacker."))))];
            m.authorities.clear();
        }
        Fault::InjectForeignDs => {
            if q.query_type != RecordType::DS {
                return None;
            }
            let mut ds = ds_for(&KeyRef::ed(5), &q.name);
            ds.name = Name::from_ascii("x").unwrap().append_domain(&q.name).ok()?;
            m.answers.push(ds);
        }
        Fault::ReorderAnswer => {
            m.answers.reverse();
        }
        Fault::StripAndAlter => {
            let mut any = false;
            for r in m.answers.iter_mut() {
                if let RData::A(x) = &r.data {
                    r.data = RData::A(A::new(198, 51, 100, x.0.octets()[3]));
                    any = true;
                }
            }
            if !any {
                // a negative response: replace it by an unsigned positive answer for the question
                let q = m.queries.first()?.clone();
                if q.query_type != RecordType::A {
                    return None;
                }
                m.answers.clear();
                m.answers.push(Record::from_rdata(q.name.clone(), 300, RData::A(A::new(198, 51, 100, 77))));
                m.metadata.response_code = hickory_proto::op::ResponseCode::NoError;
            }
            m.answers.retain(|r| r.record_type() != RecordType::RRSIG);
            m.authorities.clear();
            m.additionals.clear();
        }
    }
    if m == *orig {
        None
    } else {
        Some(Some(m))
    }
}

pub struct C07Part;

fn gen_fault(r: &mut Rng) -> FaultAt {
    let (class, fault) = match r.below(18) {
        0 => (Class::Main, Fault::Alter(r.below(4) as u8)),
        1 => (*r.pick(&[Class::Main, Class::Dnskey, Class::Ds]), Fault::Remove(r.below(8) as u8)),
        2 => (Class::Main, Fault::InjectUnsigned),
        3 => (Class::Main, Fault::InjectAttackerSigned),
        4 => (Class::Dnskey, Fault::AttackerDnskeys),
        5 => (Class::Ds, Fault::ReplaceDs),
        6 => (*r.pick(&[Class::Main, Class::Dnskey, Class::Ds]), Fault::StripRrsigs),
        7 => (*r.pick(&[Class::Main, Class::Ds]), Fault::StripDenial),
        8 => (*r.pick(&[Class::Main, Class::Ds]), Fault::FlipRcode),
        9 => (*r.pick(&[Class::Main, Class::Dnskey, Class::Ds, Class::NsProbe]), Fault::Drop),
        10..=11 => (Class::NsProbe, Fault::ForgeNs),
        12..=13 => (Class::Main, Fault::StripAndAlter),
        14 => (Class::Dnskey, Fault::Alter(0)),
        16 | 17 => (Class::Main, Fault::InjectSiblingSigned),
        _ => (*r.pick(&[Class::Ds, Class::Ds, Class::Main, Class::Dnskey]), *r.pick(&[Fault::Alter(0), Fault::InjectForeignDs, Fault::ReorderAnswer])),
    };
    let occurrence = if matches!(fault, Fault::ForgeNs) || r.chance(1, 3) { 255 } else { r.below(3) as u8 };
    FaultAt { class, occurrence, fault, qname: String::new() }
}

pub(super) fn gen_plan(seed: u64) -> Plan {
    let mut r = Rng::new(seed);
    let mut sim = SimConfig::from_seed(seed);
    sim.step_budget = 2_000_000;
    let nq = 1 + r.usize_below(3);
    let total = all_queries().queries.len();
    let queries = (0..nq).map(|_| r.usize_below(total)).collect();
    let fault_free = r.chance(1, 4);
    let mut faults = Vec::new();
    if !fault_free {
        for _ in 0..1 + r.usize_below(3) {
            faults.push(gen_fault(&mut r));
        }
        // the downgrade shape needs its two halves together
        if r.chance(1, 4) {
            faults = vec![FaultAt { class: Class::Main, occurrence: 255, fault: Fault::StripAndAlter, qname: String::new() }, FaultAt { class: Class::NsProbe, occurrence: 255, fault: Fault::ForgeNs, qname: String::new() }];
        }
        // key substitution needs three cooperating halves
        if r.chance(1, 6) {
            let z = r.pick(&["leaf.tld.", "leaf.tld.", "tld."]).to_string();
            faults = vec![
                FaultAt { class: Class::Ds, occurrence: 255, fault: Fault::InjectForeignDs, qname: z.clone() },
                FaultAt { class: Class::Dnskey, occurrence: 255, fault: Fault::AttackerDnskeys, qname: z },
                FaultAt { class: Class::Main, occurrence: 255, fault: Fault::InjectAttackerSigned, qname: String::new() },
            ];
        }
        // the order of a DS RRset is the sender's choice
        if r.chance(1, 6) {
            faults.push(FaultAt { class: Class::Ds, occurrence: 255, fault: Fault::ReorderAnswer, qname: String::new() });
        }
    }
    Plan {
        sim,
        nsec3: [r.bool(), r.bool(), r.bool()],
        iterations: *r.pick(&[0u16, 1, 5]),
        opt_out: r.chance(1, 3),
        tld_collision_keys: r.chance(1, 4),
        leaf_key_alg: r.below(4) as u8,
        queries,
        concurrent: r.chance(1, 3),
        faults,
        mixed_ds: r.chance(1, 3),
    }
}

impl Part for C07Part {
    fn name(&self) -> &'static str {
        "chain"
    }
    fn runs(&self, tier: Tier) -> u64 {
        match tier {
            Tier::Quick => 5_000,
            Tier::Thorough => 250_000,
        }
    }
    fn block(&self, _t: Tier) -> u64 {
        16
    }
    fn gen(&self, seed: u64, _tier: Tier) -> Value {
        serde_json::to_value(gen_plan(seed)).unwrap()
    }
    fn run(&self, plan: &Value, trace: bool) -> Report {
        let mut p: Plan = serde_json::from_value(plan.clone()).expect("plan");
        p.sim.trace = trace;
        let mut sig = mix((p.nsec3[0] as u64) | (p.nsec3[1] as u64) << 1 | (p.nsec3[2] as u64) << 2 | (p.tld_collision_keys as u64) << 3 | (p.leaf_key_alg as u64) << 4 | (p.concurrent as u64) << 8 | (p.opt_out as u64) << 9);
        for q in &p.queries {
            sig = mix(sig ^ (*q as u64 + 1));
        }
        for f in &p.faults {
            sig = mix(sig ^ (f.class as u64) << 8 ^ fault_code(f.fault) ^ ((f.occurrence == 255) as u64) << 16);
        }
        let nontrivial = !p.faults.is_empty() || p.queries.len() > 1;
        let p2 = p.clone();
        let out = exec::run(&p.sim, async move { scenario(p2).await });
        finish(out, sig, nontrivial, "C07.stall")
    }
    fn shrink(&self, plan: &Value) -> Vec<Value> {
        let Ok(p) = serde_json::from_value::<Plan>(plan.clone()) else { return vec![] };
        let mut out = Vec::new();
        for i in 0..p.faults.len() {
            let mut q = p.clone();
            q.faults.remove(i);
            out.push(q);
        }
        if p.queries.len() > 1 {
            for i in 0..p.queries.len() {
                let mut q = p.clone();
                q.queries.remove(i);
                out.push(q);
            }
        }
        for (i, b) in p.nsec3.iter().enumerate() {
            if *b {
                let mut q = p.clone();
                q.nsec3[i] = false;
                out.push(q);
            }
        }
        if p.tld_collision_keys {
            let mut q = p.clone();
            q.tld_collision_keys = false;
            out.push(q);
        }
        if p.leaf_key_alg != 0 {
            let mut q = p.clone();
            q.leaf_key_alg = 0;
            out.push(q);
        }
        if p.concurrent {
            let mut q = p.clone();
            q.concurrent = false;
            out.push(q);
        }
        if p.mixed_ds {
            let mut q = p.clone();
            q.mixed_ds = false;
            out.push(q);
        }
        if p.opt_out {
            let mut q = p.clone();
            q.opt_out = false;
            out.push(q);
        }
        if p.sim.policy != hsim::SchedPolicy::Fifo {
            let mut q = p.clone();
            q.sim.policy = hsim::SchedPolicy::Fifo;
            out.push(q);
        }
        out.into_iter().map(|q| serde_json::to_value(q).unwrap()).collect()
    }
    fn describe(&self) -> Describe {
        Describe {
            rule: "plan = (hierarchy root -> tld -> leaf with NSEC or NSEC3 per level, iterations, opt-out, optional key-tag-colliding key pair at the tld, leaf key algorithm Ed25519/RSA/ECDSA, plus an unsigned child, an island of security, a child with an unsupported-algorithm DS and an unsigned TLD), 1-3 queries from 13 (sequential or concurrent through one validator), 0-3 faults each addressed to a class of upstream exchange {own question, DNSKEY, DS, NS probe} and occurrence: alter / remove a record, inject unsigned or attacker-signed records, attacker DNSKEY RRset, replaced DS, stripped RRSIGs, stripped denial proof, flipped rcode, dropped response, forged NS at the probed name, strip-and-alter; non-trivial = any fault or several queries; distinct by (hierarchy options, queries, fault class/kind/occurrence)".into(),
            real: vec!["DnssecDnsHandle: verify_response, verify_rrsets, verify_dnskey_rrset, verify_dnskey, find_ds_records / fetch_ds_records, verify_nsec / verify_nsec3 for the DS-absence proofs, validation cache", "authoritative side: seven real InMemoryZoneHandler zones signed by secure_zone_mut, Catalog::handle_request (DS at delegation points, NSEC/NSEC3 proofs)"],
            stub: vec!["upstream router (plays the recursive resolver: picks the zone that is authoritative for each question)", "tamper layer, attacker key"],
            assumptions: vec!["ground truth = the generated zones; the attacker holds no zone key"],
        }
    }
}

pub(super) fn fault_code(f: Fault) -> u64 {
    match f {
        Fault::Alter(_) => 1,
        Fault::Remove(_) => 2,
        Fault::InjectUnsigned => 3,
        Fault::InjectAttackerSigned => 4,
        Fault::AttackerDnskeys => 5,
        Fault::ReplaceDs => 6,
        Fault::StripRrsigs => 7,
        Fault::StripDenial => 8,
        Fault::FlipRcode => 9,
        Fault::Drop => 10,
        Fault::ForgeNs => 11,
        Fault::StripAndAlter => 12,
        Fault::InjectForeignDs => 13,
        Fault::ReorderAnswer => 14,
        Fault::InjectSiblingSigned => 15,
    }
}

pub(super) fn fault_name(f: Fault) -> String {
    format!("{f:?}").split('(').next().unwrap().to_string()
}

/// genuine RRset for (owner, type), including wildcard synthesis inside the owner's zone
pub(super) fn genuine(world: &World, truths: &BTreeMap<String, Truth>, owner: &Name, t: RecordType) -> Option<Vec<RData>> {
    // DS lives in the parent
    let zone = if t == RecordType::DS {
        world.zones.iter().filter(|z| z.origin.zone_of(owner) && z.origin != *owner).map(|z| z.origin.clone()).max_by_key(|o| o.num_labels())?
    } else {
        zone_of_owner(world, owner)
    };
    let truth = truths.get(&zone.to_lowercase().to_string())?;
    let key = (owner.to_lowercase().to_string(), u16::from(t));
    if let Some((d, _, _)) = truth.rrsets.get(&key) {
        return Some(d.clone());
    }
    // wildcard: only when the name itself does not exist
    if truth.rrsets.keys().any(|k| k.0 == key.0) {
        return None;
    }
    let mut anc = owner.base_name();
    while zone.zone_of(&anc) {
        let w = Name::from_ascii("*").unwrap().append_domain(&anc).ok()?;
        if let Some((d, _, _)) = truth.rrsets.get(&(w.to_lowercase().to_string(), u16::from(t))) {
            return Some(d.clone());
        }
        if truth.rrsets.keys().any(|k| k.0 == anc.to_lowercase().to_string()) {
            return None;
        }
        if anc == zone {
            break;
        }
        anc = anc.base_name();
    }
    None
}

async fn scenario(p: Plan) {
    let (world, anchor_keys) = build_world(&p);
    let mut truths = BTreeMap::new();
    for z in &world.zones {
        truths.insert(z.origin.to_lowercase().to_string(), truth_of(z).await);
    }
    let secure_zones: Vec<Name> = vec![Name::root(), n("tld."), n("leaf.tld.")];
    let world = Arc::new(world);
    let router = Router::new(world.clone());
    let qs = all_queries();
    // the NSEC wildcard expansion is C08's subject (known finding there): not asked here
    let mut p = p;
    if !p.nsec3[2] {
        for q in p.queries.iter_mut() {
            if *q % qs.queries.len() == 4 {
                *q = 0;
            }
        }
    }
    let user_questions: Vec<Query> = p.queries.iter().map(|i| qs.queries[*i % qs.queries.len()].0.clone()).collect();
    // fault layer
    let counters: Arc<Mutex<BTreeMap<Class, u8>>> = Arc::new(Mutex::new(BTreeMap::new()));
    let applied: Arc<Mutex<Vec<String>>> = Arc::new(Mutex::new(Vec::new()));
    {
        let faults = p.faults.clone();
        let world2 = world.clone();
        let counters = counters.clone();
        let applied = applied.clone();
        let uq = user_questions.clone();
        router.set_tamper(move |_nth, q, m| {
            let class = if q.query_type == RecordType::DNSKEY && !uq.contains(q) {
                Class::Dnskey
            } else if q.query_type == RecordType::DS && !uq.contains(q) {
                Class::Ds
            } else if q.query_type == RecordType::NS && !uq.contains(q) {
                Class::NsProbe
            } else {
                Class::Main
            };
            let k = {
                let mut c = counters.lock().unwrap();
                let e = c.entry(class).or_insert(0);
                let k = *e;
                *e = e.saturating_add(1);
                k
            };
            let mut cur = Some(m);
            let mut tampered = false;
            for f in faults.iter().filter(|f| f.class == class && (f.occurrence == 255 || f.occurrence == k) && (f.qname.is_empty() || q.name.to_lowercase().to_string() == f.qname)) {
                let Some(mm) = cur.clone() else { break };
                if let Some(res) = apply_fault(&world2, q, &mm, f.fault) {
                    applied.lock().unwrap().push(format!("{}@{:?}", fault_name(f.fault), class));
                    exec::count(&format!("fault.{}@{:?}", fault_name(f.fault), class));
                    tampered = true;
                    cur = res;
                }
            }
            (cur, tampered)
        });
    }
    let validator = DnssecDnsHandle::with_trust_anchor(router.clone(), anchors_for(&anchor_keys));
    let mut opts = DnsRequestOptions::default();
    opts.use_edns = true;
    opts.edns_set_dnssec_ok = true;

    let mut results: Vec<(usize, Option<Result<hickory_proto::op::DnsResponse, hickory_net::NetError>>)> = Vec::new();
    if p.concurrent {
        let mut joins = Vec::new();
        for (i, q) in user_questions.iter().enumerate() {
            let v = validator.clone();
            let q = q.clone();
            joins.push((i, exec::spawn(&format!("lookup{i}"), async move { v.lookup(q, opts).next().await })));
        }
        for (i, j) in joins {
            results.push((i, j.await));
        }
    } else {
        for (i, q) in user_questions.iter().enumerate() {
            results.push((i, validator.lookup(q.clone(), opts).next().await));
        }
    }
    exec::count_n("probe.upstream_exchanges", router.count() as u64);
    let applied_now = applied.lock().unwrap().clone();
    let faulty = !applied_now.is_empty();
    let fault_shape = {
        let mut a = applied_now.clone();
        a.sort();
        a.dedup();
        if a.iter().any(|x| x == "ForgeNs@NsProbe") {
            // every downgrade that needs a forged zone cut is one finding
            "forged-zone-cut".to_string()
        } else {
            a.join("+")
        }
    };
    let nxs = format!("{}{}{}", if p.nsec3[0] { "3" } else { "n" }, if p.nsec3[1] { "3" } else { "n" }, if p.nsec3[2] { "3" } else { "n" });

    for (i, res) in results {
        let (query, expect) = &qs.queries[p.queries[i] % qs.queries.len()];
        let qdesc = format!("{} {}", query.name, query.query_type);
        if exec::tracing() {
            exec::log(&format!("validator result for {qdesc}: {}", match &res {
                Some(Ok(r)) => format!("Ok rcode={:?} an={:?} ns={:?}", r.metadata.response_code, r.answers.iter().map(|x| format!("{} {} {:?}", x.name, x.record_type(), x.proof)).collect::<Vec<_>>(), r.authorities.iter().map(|x| format!("{} {} {:?}", x.name, x.record_type(), x.proof)).collect::<Vec<_>>()),
                Some(Err(e)) => format!("Err {e}"),
                None => "none".into(),
            }));
        }
        let in_secure_zone = |owner: &Name| {
            let z = zone_of_owner(&world, owner);
            secure_zones.contains(&z)
        };
        match res {
            Some(Ok(resp)) => {
                let recs: Vec<&Record> = resp.answers.iter().filter(|r| r.record_type() != RecordType::RRSIG).collect();
                if recs.is_empty() {
                    exec::count("probe.empty_ok_answer");
                }
                for rec in &recs {
                    match rec.proof {
                        Proof::Secure => {
                            exec::count("probe.secure_record");
                            let g = genuine(&world, &truths, &rec.name, rec.record_type());
                            let returned: Vec<&RData> = recs.iter().filter(|r| r.name.to_lowercase() == rec.name.to_lowercase() && r.record_type() == rec.record_type()).map(|r| &r.data).collect();
                            let ok = match &g {
                                Some(d) => d.len() == returned.len() && returned.iter().all(|x| d.contains(x)),
                                None => false,
                            };
                            if !ok {
                                if exec::violate("C07.secure-not-genuine", &fault_shape, format!("{qdesc}: record {} {} {} is Secure but the genuine RRset is {g:?} (faults: {applied_now:?})", rec.name, rec.record_type(), rec.data)) {
                                    return;
                                }
                            }
                            if !in_secure_zone(&rec.name) && rec.record_type() != RecordType::DS {
                                if exec::violate("C07.secure-without-chain", &fault_shape, format!("{qdesc}: record {} {} is Secure although its zone has no chain of trust", rec.name, rec.record_type())) {
                                    return;
                                }
                            }
                        }
                        Proof::Insecure | Proof::Indeterminate => {
                            exec::count("probe.insecure_record");
                            let owner_secure = if rec.record_type() == RecordType::DS { true } else { in_secure_zone(&rec.name) };
                            // Inherent to NSEC3 opt-out (RFC 5155 12.2): a name that has no node of
                            // its own in an opt-out zone lies in a span where unsigned delegations
                            // may be inserted without proof, so it can always be presented as one.
                            let z = zone_of_owner(&world, &rec.name);
                            let level = if z == n("leaf.tld.") { 2 } else if z == n("tld.") { 1 } else { 0 };
                            let optout_zone = p.nsec3[level] && p.opt_out && level != 0;
                            let node_exists = truths.get(&z.to_lowercase().to_string()).map(|t| t.rrsets.keys().any(|k| k.0 == rec.name.to_lowercase().to_string())).unwrap_or(false);
                            if faulty && optout_zone && !node_exists {
                                exec::count("probe.optout_span_downgrade_inherent");
                                continue;
                            }
                            if owner_secure && expect.starts_with("secure") {
                                let shape = if faulty { fault_shape.clone() } else { format!("fault-free:{nxs}:{}", query.query_type) };
                                let inv = if faulty { "C07.downgrade" } else { "C07.genuine-not-secure" };
                                if exec::violate(inv, &shape, format!("{qdesc}: record {} {} {} returned with proof {:?} although its zone is signed with a complete chain (faults: {applied_now:?})", rec.name, rec.record_type(), rec.data, rec.proof)) {
                                    return;
                                }
                            }
                            if !faulty {
                                // data of an insecure zone must at least be what the zone says
                                let g = genuine(&world, &truths, &rec.name, rec.record_type());
                                if g.map(|d| !d.contains(&rec.data)).unwrap_or(true) {
                                    if exec::violate("C07.harness", "", format!("{qdesc}: fault-free insecure record {} differs from the zone", rec.name)) {
                                        return;
                                    }
                                }
                            }
                        }
                        Proof::Bogus => {
                            exec::count("probe.bogus_record");
                            if !faulty {
                                if exec::violate("C07.genuine-not-secure", &format!("fault-free:{nxs}:{}:bogus-{expect}", query.query_type), format!("{qdesc}: fault-free record {} {} is Bogus", rec.name, rec.record_type())) {
                                    return;
                                }
                            }
                        }
                    }
                }
                if !faulty && recs.is_empty() && *expect != "secure-nx" {
                    if exec::violate("C07.genuine-not-secure", &format!("fault-free:{nxs}:{}:empty-{expect}", query.query_type), format!("{qdesc}: fault-free lookup returned no answer records (rcode {:?})", resp.metadata.response_code)) {
                        return;
                    }
                }
            }
            Some(Err(e)) => {
                exec::count("probe.lookup_error");
                if !faulty && *expect == "secure-nx" {
                    // the validated denial of a name that does not exist
                    let proof = match &e {
                        NetError::Dns(DnsError::Nsec { proof, .. }) => Some(*proof),
                        _ => None,
                    };
                    // (whether the server's denial is complete is C08 / C09's subject)
                    exec::count(&format!("probe.genuine_denial.{proof:?}"));
                } else if !faulty {
                    let kind = format!("{e}").split(':').next().unwrap_or("").chars().take(40).collect::<String>();
                    if exec::violate("C07.genuine-not-secure", &format!("fault-free:{nxs}:{}:error-{expect}", query.query_type), format!("{qdesc}: fault-free lookup failed: {e} [{kind}]")) {
                        return;
                    }
                }
            }
            None => {
                if !faulty {
                    exec::violate("C07.genuine-not-secure", "fault-free:none", format!("{qdesc}: no result"));
                    return;
                }
            }
        }
    }
}

pub fn def() -> CheckDef {
    CheckDef { id: "C07", level: "exploration", parts: vec![Box::new(C07Part), Box::new(super::c07front::ServerPart)] }
}
