//! rig_dnssec infrastructure: real signed zones (`InMemoryZoneHandler` + `secure_zone_mut`)
//! served by the real authoritative path (`Catalog::handle_request`), an upstream router
//! `DnsHandle` that picks the zone a recursive resolver would have asked, a tamper layer on
//! the response in flight, and the real `DnssecDnsHandle` validator on top.

use std::collections::BTreeMap;
use std::net::SocketAddr;
use std::pin::Pin;
use std::sync::{Arc, Mutex};
use std::time::Duration;

use futures_util::stream::{self, Stream, StreamExt};
use hickory_net::xfer::{BufDnsStreamHandle, DnsHandle, Protocol};
use hickory_net::NetError;
use hickory_proto::dnssec::rdata::{DNSSECRData, DNSKEY, DS, RRSIG};
use hickory_proto::dnssec::{DigestType, DnssecSigner, SigningKey, TrustAnchors};
use hickory_proto::op::{DnsRequest, DnsResponse, Message, Query};
use hickory_proto::rr::{LowerName, Name, RData, Record, RecordType};
use hickory_server::dnssec::NxProofKind;
use hickory_server::server::{Request, RequestHandler, ResponseHandle};
use hickory_server::store::in_memory::InMemoryZoneHandler;
use hickory_server::zone_handler::{AxfrPolicy, Catalog, ZoneHandler, ZoneType};
use hsim::exec;
use hsim::net::{SimProvider, SimTime};
use serde::{Deserialize, Serialize};

use crate::fixtures;

#[derive(Clone, Debug, Serialize, Deserialize, PartialEq)]
pub enum Nx {
    Nsec,
    Nsec3 { salt: Vec<u8>, iterations: u16, opt_out: bool },
}

#[derive(Clone, Debug, Serialize, Deserialize, PartialEq)]
pub struct KeyRef {
    /// fixture file name
    pub file: String,
    /// "ed25519" | "rsa" | "ecdsa"
    pub alg: String,
}

impl KeyRef {
    pub fn load(&self) -> Box<dyn SigningKey> {
        match self.alg.as_str() {
            "rsa" => fixtures::rsa(&self.file),
            "ecdsa" => fixtures::ecdsa_p256(&self.file),
            _ => fixtures::ed25519(&self.file),
        }
    }
    pub fn ed(i: usize) -> Self {
        Self { file: format!("ed25519-{i}.pk8"), alg: "ed25519".into() }
    }
}

pub struct ZoneSpec {
    pub origin: Name,
    pub records: Vec<Record>,
    pub nx: Nx,
    /// empty = unsigned zone
    pub keys: Vec<KeyRef>,
    pub sig_duration_s: u64,
}

pub struct ZoneRt {
    pub origin: Name,
    pub signed: bool,
    pub handler: Arc<InMemoryZoneHandler<SimProvider>>,
    pub catalog: Catalog,
    pub dnskeys: Vec<DNSKEY>,
}

pub struct World {
    pub zones: Vec<ZoneRt>,
}

pub fn build_zone(spec: &ZoneSpec) -> ZoneRt {
    let nx = match &spec.nx {
        Nx::Nsec => NxProofKind::Nsec,
        Nx::Nsec3 { salt, iterations, opt_out } => NxProofKind::Nsec3 { algorithm: Default::default(), salt: salt.clone().into(), iterations: *iterations, opt_out: *opt_out },
    };
    let mut h = InMemoryZoneHandler::<SimProvider>::empty(spec.origin.clone(), ZoneType::Primary, AxfrPolicy::Deny, if spec.keys.is_empty() { None } else { Some(nx) });
    for r in &spec.records {
        h.upsert_mut(r.clone(), 0);
    }
    let mut dnskeys = Vec::new();
    for k in &spec.keys {
        let key = k.load();
        let dnskey = DNSKEY::from_key(&key.to_public_key().expect("public key"));
        dnskeys.push(dnskey.clone());
        h.add_zone_signing_key_mut(DnssecSigner::new(dnskey, key, spec.origin.clone(), Duration::from_secs(spec.sig_duration_s))).expect("add key");
    }
    if !spec.keys.is_empty() {
        h.secure_zone_mut().expect("secure zone");
    }
    let handler = Arc::new(h);
    let mut catalog = Catalog::new();
    catalog.upsert(LowerName::new(&spec.origin), vec![handler.clone() as Arc<dyn ZoneHandler>]);
    ZoneRt { origin: spec.origin.clone(), signed: !spec.keys.is_empty(), handler, catalog, dnskeys }
}

pub fn ds_for(key: &KeyRef, owner: &Name) -> Record {
    let k = key.load();
    let ds = DS::from_key(&k.to_public_key().unwrap(), owner, DigestType::SHA256).expect("ds");
    Record::from_rdata(owner.clone(), 3600, RData::DNSSEC(DNSSECRData::DS(ds)))
}

pub fn anchors_for(keys: &[KeyRef]) -> Arc<TrustAnchors> {
    let mut a = TrustAnchors::empty();
    for k in keys {
        a.insert(&k.load().to_public_key().unwrap());
    }
    Arc::new(a)
}

impl World {
    /// the zone a recursive resolver would end up asking for this question: the closest
    /// enclosing zone, or — for DS — the closest enclosing zone *above* the name
    pub fn zone_for(&self, q: &Query) -> Option<usize> {
        let mut best: Option<(usize, usize)> = None;
        for (i, z) in self.zones.iter().enumerate() {
            if !z.origin.zone_of(&q.name) {
                continue;
            }
            if q.query_type == RecordType::DS && z.origin == q.name && !z.origin.is_root() {
                continue;
            }
            let l = z.origin.num_labels() as usize;
            if best.map(|b| l >= b.1).unwrap_or(true) {
                best = Some((i, l));
            }
        }
        best.map(|b| b.0)
    }

    pub async fn answer(&self, zone: usize, request: &[u8]) -> Option<Vec<u8>> {
        let src: SocketAddr = "10.9.9.9:5353".parse().unwrap();
        let req = Request::from_bytes(request.to_vec(), src, Protocol::Tcp).ok()?;
        let (handle, mut rx) = BufDnsStreamHandle::new(src);
        let rh = ResponseHandle::new(src, handle, Protocol::Tcp);
        self.zones[zone].catalog.handle_request::<_, SimTime>(&req, rh).await;
        match futures_util::FutureExt::now_or_never(rx.next()) {
            Some(Some(m)) => Some(m.into_parts().0),
            _ => None,
        }
    }
}

/// one upstream exchange as the validator saw it
#[derive(Clone)]
pub struct Exchange {
    pub nth: usize,
    pub query: Query,
    pub genuine: Message,
    pub delivered: Option<Message>,
    pub tampered: bool,
}

pub type TamperFn = dyn FnMut(usize, &Query, Message) -> (Option<Message>, bool) + Send;

#[derive(Clone)]
pub struct Router {
    pub world: Arc<World>,
    pub tamper: Arc<Mutex<Box<TamperFn>>>,
    pub log: Arc<Mutex<Vec<Exchange>>>,
    /// upstream latency range in ms (drawn from the latency stream per exchange)
    pub latency_ms: (u64, u64),
}

impl Router {
    pub fn new(world: Arc<World>) -> Self {
        Self { world, tamper: Arc::new(Mutex::new(Box::new(|_, _, m| (Some(m), false)))), log: Arc::new(Mutex::new(Vec::new())), latency_ms: (1, 20) }
    }
    pub fn set_tamper(&self, f: impl FnMut(usize, &Query, Message) -> (Option<Message>, bool) + Send + 'static) {
        *self.tamper.lock().unwrap() = Box::new(f);
    }
    pub fn exchanges(&self) -> Vec<Exchange> {
        self.log.lock().unwrap().clone()
    }
    pub fn count(&self) -> usize {
        self.log.lock().unwrap().len()
    }
}

impl DnsHandle for Router {
    type Response = Pin<Box<dyn Stream<Item = Result<DnsResponse, NetError>> + Send>>;
    type Runtime = SimProvider;

    fn send(&self, request: DnsRequest) -> Self::Response {
        let this = self.clone();
        Box::pin(stream::once(async move {
            let Some(query) = request.queries.first().cloned() else { return Err(NetError::from("no question")) };
            let bytes = request.to_vec().map_err(NetError::from)?;
            let (lo, hi) = this.latency_ms;
            let lat = lo + exec::lat_below(hi - lo + 1);
            exec::sleep(Duration::from_millis(lat)).await;
            let Some(zone) = this.world.zone_for(&query) else { return Err(NetError::from("no zone for query")) };
            let Some(resp) = this.world.answer(zone, &bytes).await else { return Err(NetError::from("no response from zone")) };
            let genuine = Message::from_vec(&resp).map_err(|e| NetError::from(format!("genuine response does not decode: {e}")))?;
            let nth = this.log.lock().unwrap().len();
            exec::log(&format!("upstream #{nth} {} {} zone={} rcode={:?} an={} ns={}", query.name, query.query_type, this.world.zones[zone].origin, genuine.metadata.response_code, genuine.answers.len(), genuine.authorities.len()));
            exec::ilog(&format!("Q{}", query.query_type));
            let (delivered, tampered) = (this.tamper.lock().unwrap())(nth, &query, genuine.clone());
            this.log.lock().unwrap().push(Exchange { nth, query: query.clone(), genuine, delivered: delivered.clone(), tampered });
            match delivered {
                None => {
                    exec::sleep(Duration::from_secs(5)).await;
                    Err(NetError::Timeout)
                }
                Some(m) => DnsResponse::from_message(m).map_err(NetError::from),
            }
        }))
    }
}

/// genuine RRset data of a zone: (owner lower-cased, type) -> (rdata list, RRSIGs)
pub struct Truth {
    pub rrsets: BTreeMap<(String, u16), (Vec<RData>, Vec<RRSIG>, u32)>,
}

pub async fn truth_of(z: &ZoneRt) -> Truth {
    let mut rrsets = BTreeMap::new();
    let recs = z.handler.records().await;
    for (k, set) in recs.iter() {
        let data: Vec<RData> = set.records_without_rrsigs().map(|r| r.data.clone()).collect();
        let sigs: Vec<RRSIG> = set
            .rrsigs()
            .iter()
            .filter_map(|r| match &r.data {
                RData::DNSSEC(DNSSECRData::RRSIG(s)) => Some(s.clone()),
                _ => None,
            })
            .collect();
        rrsets.insert((k.name.to_string().to_lowercase(), u16::from(k.record_type)), (data, sigs, set.ttl()));
    }
    Truth { rrsets }
}

/// RFC 1982 comparison on 32-bit time stamps: a <= b
pub fn serial_le(a: u32, b: u32) -> bool {
    a == b || (b.wrapping_sub(a) as i32) > 0
}
