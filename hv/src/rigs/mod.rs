use hsim::supervisor::CheckDef;

pub mod c17;

pub fn all() -> Vec<CheckDef> {
    vec![c17::def()]
}
