use hsim::supervisor::CheckDef;

pub mod c06;
pub mod c07;
pub mod c07front;
pub mod c0809;
pub mod c13;
pub mod c15;
pub mod c16;
pub mod c17;
pub mod c18;
pub mod c19;
pub mod denial_ref;
pub mod dnssec;
pub mod front;
pub mod tsig_ref;
pub mod upd_model;
pub mod update;

pub fn all() -> Vec<CheckDef> {
    vec![c06::def(), c07::def(), c0809::def_c08(), c0809::def_c09(), update::def_c12(), c13::def(), update::def_c14(), c15::def(), c16::def(), c17::def(), c18::def(), c19::def(), front::def_c11(), front::def_c03()]
}
