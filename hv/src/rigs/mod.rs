use hsim::supervisor::CheckDef;

pub mod c16;
pub mod c17;
pub mod upd_model;
pub mod update;

pub fn all() -> Vec<CheckDef> {
    vec![update::def_c12(), update::def_c14(), c16::def(), c17::def()]
}
