use hsim::supervisor::CheckDef;

pub mod c16;
pub mod c17;

pub fn all() -> Vec<CheckDef> {
    vec![c16::def(), c17::def()]
}
