//! rig_server — the server's front gate, C11 ("front") and C03 ("sizes").
//!
//! Real `Server::with_access(Catalog, deny, allow)`; every request enters through the guarded
//! hook `Server::verif_handle_raw_request`, i.e. exactly the call the UDP and TCP socket loops
//! make (`ServerContext::handle_raw_request`: header gate, access control, request parsing,
//! `Catalog::handle_request`, `ResponseHandle` encoding with the protocol's size limit).  The
//! socket loops themselves are tokio-bound and are replaced by the rig: every request of a run
//! is a task of the simulator (the UDP loop spawns one task per datagram, too), each with its
//! own `BufDnsStreamHandle`, so responses are attributed exactly.
//!
//! Request bytes are produced by the rig's own encoder, never by hickory's.

use std::cell::RefCell;
use std::collections::BTreeMap;
use std::net::{IpAddr, Ipv4Addr, SocketAddr};
use std::rc::Rc;
use std::sync::Arc;

use futures_util::stream::StreamExt;
use hickory_net::xfer::{BufDnsStreamHandle, Protocol};
use hickory_proto::op::{Message, ResponseCode, SerialMessage};
use hickory_proto::rr::rdata::{A, NS, SOA, TXT};
use hickory_proto::rr::{LowerName, Name, RData, Record, RecordType};
use hickory_server::server::{RequestInfo, Server};
use hickory_server::store::in_memory::InMemoryZoneHandler;
use hickory_server::zone_handler::{AuthLookup, AxfrPolicy, Catalog, LookupControlFlow, LookupOptions, ZoneHandler, ZoneType};
use hsim::exec::{self, SimConfig};
use hsim::net::SimProvider;
use hsim::rng::mix;
use hsim::supervisor::{CheckDef, Describe, Part, Report, Tier};
use hsim::Rng;
use ipnet::IpNet;
use serde::{Deserialize, Serialize};
use serde_json::Value;

use super::update::finish;

// ------------------------------------------------------------------------------------------
// universe

const ORIGINS: [&str; 7] = [".", "example.", "sub.example.", "deep.sub.example.", "other.", "xample.", "ub.example."];
const BASES: [&str; 9] = [".", "example.", "sub.example.", "deep.sub.example.", "other.", "xample.", "ub.example.", "nomatch.", "le."];
const PREFIXES: [&str; 7] = ["", "www.", "a.b.", "sub.", "Www.", "*.", "*.a."];
const SOURCES: [[u8; 4]; 6] = [[10, 0, 0, 1], [10, 0, 0, 200], [10, 0, 1, 1], [10, 1, 0, 1], [192, 168, 7, 7], [172, 16, 0, 9]];
const NETS: [&str; 8] = ["10.0.0.0/8", "10.0.0.0/16", "10.0.0.0/24", "10.0.0.1/32", "192.168.0.0/16", "0.0.0.0/0", "10.0.1.0/24", "172.16.0.0/12"];

fn n(s: &str) -> Name {
    Name::from_ascii(s).unwrap_or_else(|_| Name::root())
}

fn marker_ip(zone: usize) -> Ipv4Addr {
    Ipv4Addr::new(10, 99, 0, zone as u8 + 1)
}

/// a handler that never answers (front of a chained configuration)
struct SkipHandler {
    origin: LowerName,
}

#[async_trait::async_trait]
impl ZoneHandler for SkipHandler {
    fn zone_type(&self) -> ZoneType {
        ZoneType::External
    }
    fn axfr_policy(&self) -> AxfrPolicy {
        AxfrPolicy::Deny
    }
    fn origin(&self) -> &LowerName {
        &self.origin
    }
    async fn lookup(&self, _name: &LowerName, _rtype: RecordType, _ri: Option<&RequestInfo<'_>>, _lo: LookupOptions) -> LookupControlFlow<AuthLookup> {
        LookupControlFlow::Skip
    }
    async fn nsec_records(&self, _name: &LowerName, _lo: LookupOptions) -> LookupControlFlow<AuthLookup> {
        LookupControlFlow::Skip
    }
    async fn nsec3_records(&self, _info: hickory_server::zone_handler::Nsec3QueryInfo<'_>, _lo: LookupOptions) -> LookupControlFlow<AuthLookup> {
        LookupControlFlow::Skip
    }
    fn nx_proof_kind(&self) -> Option<&hickory_server::dnssec::NxProofKind> {
        None
    }
    fn metrics_label(&self) -> &'static str {
        "skip"
    }
}

#[derive(Serialize, Deserialize, Clone, Debug, PartialEq)]
struct ZoneCfg {
    /// index into ORIGINS
    origin: usize,
    /// 0 = one real handler, 1 = a Skip handler in front of the real one
    chain: u8,
    /// number / length of the TXT records at `big.<origin>`, number of A records at `many.<origin>`
    big_txt: u16,
    txt_len: u8,
    many_a: u16,
    /// NS records (with glue) at the delegation point `deleg.<origin>`, MX records (targets with
    /// address records) at `mx.<origin>`; the target names are padded to `pad` characters
    #[serde(default)]
    deleg_ns: u8,
    #[serde(default)]
    mx_n: u8,
    #[serde(default)]
    pad: u8,
    /// HTTPS and SVCB records at `svc.<origin>`, each with an ipv4hint of `hint_n` addresses, an
    /// ipv6hint of hint_n/2 addresses and an alpn list; CAA / NAPTR / SRV records at `mix.<origin>`
    #[serde(default)]
    svc_n: u8,
    #[serde(default)]
    hint_n: u8,
    #[serde(default)]
    mix_n: u8,
}

#[derive(Serialize, Deserialize, Clone, Debug, PartialEq)]
struct Edns {
    version: u8,
    payload: u16,
    dnssec_ok: bool,
}

#[derive(Serialize, Deserialize, Clone, Debug, PartialEq)]
struct Q {
    prefix: usize,
    base: usize,
    /// wire type
    qtype: u16,
    qclass: u16,
    opcode: u8,
    qr: bool,
    rd: bool,
    edns: Option<Edns>,
}

#[derive(Serialize, Deserialize, Clone, Debug, PartialEq)]
enum Kind {
    Valid,
    /// only the first n (< 12) bytes
    Short(u8),
    /// cut at 12 + (k mod (len - 12))
    Cut(u16),
    /// byte at 2 + (pos mod (len - 2)) replaced
    Mutate(u16, u8),
    /// question count overwritten
    QdCount(u16),
    /// n random bytes from the seed
    Random(u16, u64),
}

#[derive(Serialize, Deserialize, Clone, Debug, PartialEq)]
struct Req {
    id: u16,
    src: usize,
    tcp: bool,
    q: Q,
    kind: Kind,
    /// start delay in microseconds
    delay_us: u32,
}

#[derive(Serialize, Deserialize, Clone, Debug)]
struct Plan {
    sim: SimConfig,
    zones: Vec<ZoneCfg>,
    deny: Vec<usize>,
    allow: Vec<usize>,
    reqs: Vec<Req>,
}

// ------------------------------------------------------------------------------------------
// the rig's own wire encoder / walker

fn put_name(out: &mut Vec<u8>, name: &str) {
    for l in name.split('.').filter(|l| !l.is_empty()) {
        out.push(l.len() as u8);
        out.extend_from_slice(l.as_bytes());
    }
    out.push(0);
}

fn qname_of(q: &Q) -> String {
    let base = BASES[q.base % BASES.len()];
    let p = PREFIXES[q.prefix % PREFIXES.len()];
    if base == "." {
        if p.is_empty() {
            ".".into()
        } else {
            p.to_string()
        }
    } else {
        format!("{p}{base}")
    }
}

fn encode_query(id: u16, q: &Q) -> Vec<u8> {
    let mut b = Vec::new();
    b.extend_from_slice(&id.to_be_bytes());
    let flags: u16 = (q.qr as u16) << 15 | ((q.opcode as u16) & 0xF) << 11 | (q.rd as u16) << 8;
    b.extend_from_slice(&flags.to_be_bytes());
    b.extend_from_slice(&1u16.to_be_bytes());
    b.extend_from_slice(&0u16.to_be_bytes());
    b.extend_from_slice(&0u16.to_be_bytes());
    b.extend_from_slice(&(q.edns.is_some() as u16).to_be_bytes());
    put_name(&mut b, &qname_of(q));
    b.extend_from_slice(&q.qtype.to_be_bytes());
    b.extend_from_slice(&q.qclass.to_be_bytes());
    if let Some(e) = &q.edns {
        b.push(0);
        b.extend_from_slice(&41u16.to_be_bytes());
        b.extend_from_slice(&e.payload.to_be_bytes());
        let ttl: u32 = (e.version as u32) << 16 | (e.dnssec_ok as u32) << 15;
        b.extend_from_slice(&ttl.to_be_bytes());
        b.extend_from_slice(&0u16.to_be_bytes());
    }
    b
}

fn wire_of(r: &Req) -> Vec<u8> {
    let full = encode_query(r.id, &r.q);
    match &r.kind {
        Kind::Valid => full,
        Kind::Short(k) => full[..(*k as usize % 12).min(full.len())].to_vec(),
        Kind::Cut(k) => {
            let span = full.len() - 12;
            full[..12 + (*k as usize % span.max(1))].to_vec()
        }
        Kind::Mutate(pos, val) => {
            let mut f = full;
            let i = 2 + (*pos as usize % (f.len() - 2));
            f[i] = *val;
            f
        }
        Kind::QdCount(c) => {
            let mut f = full;
            f[4..6].copy_from_slice(&c.to_be_bytes());
            f
        }
        Kind::Random(len, seed) => {
            let mut rr = Rng::new(*seed);
            let mut f: Vec<u8> = (0..*len).map(|_| rr.next_u64() as u8).collect();
            if f.len() >= 2 {
                f[0..2].copy_from_slice(&r.id.to_be_bytes());
            }
            f
        }
    }
}

/// skip a (possibly compressed) name; returns the offset after it
fn skip_name(b: &[u8], mut off: usize) -> Option<usize> {
    loop {
        let l = *b.get(off)? as usize;
        if l == 0 {
            return Some(off + 1);
        }
        if l & 0xC0 == 0xC0 {
            b.get(off + 1)?;
            return Some(off + 2);
        }
        if l & 0xC0 != 0 {
            return None;
        }
        off += 1 + l;
    }
}

/// walks a whole message by its header counts; returns the offset after the last record
fn walk_message(b: &[u8]) -> Option<usize> {
    if b.len() < 12 {
        return None;
    }
    let cnt = |i: usize| u16::from_be_bytes([b[i], b[i + 1]]) as usize;
    let mut off = 12;
    for _ in 0..cnt(4) {
        off = skip_name(b, off)? + 4;
        if off > b.len() {
            return None;
        }
    }
    for _ in 0..(cnt(6) + cnt(8) + cnt(10)) {
        off = skip_name(b, off)?;
        if off + 10 > b.len() {
            return None;
        }
        let rdlen = u16::from_be_bytes([b[off + 8], b[off + 9]]) as usize;
        off += 10 + rdlen;
        if off > b.len() {
            return None;
        }
    }
    Some(off)
}

// ------------------------------------------------------------------------------------------
// reference model of the gate

fn net(i: usize) -> IpNet {
    NETS[i % NETS.len()].parse().unwrap()
}

/// access rule as documented in `access.rs`: the more specific of the longest matching deny and
/// allow prefixes wins (a tie denies); without a match, an allow-only configuration denies
fn ref_allowed(deny: &[usize], allow: &[usize], ip: Ipv4Addr) -> bool {
    let longest = |set: &[usize]| set.iter().map(|i| net(*i)).filter(|nw| nw.contains(&IpAddr::V4(ip))).map(|nw| nw.prefix_len()).max();
    match (longest(deny), longest(allow)) {
        (Some(d), Some(a)) => a > d,
        (Some(_), None) => false,
        (None, Some(_)) => true,
        (None, None) => !deny.is_empty() || allow.is_empty(),
    }
}

/// index (into plan.zones) of the zone with the longest origin enclosing the name
fn ref_zone(zones: &[ZoneCfg], qname: &Name) -> Option<usize> {
    let mut best: Option<(usize, usize)> = None;
    for (i, z) in zones.iter().enumerate() {
        let o = n(ORIGINS[z.origin % ORIGINS.len()]);
        if o.zone_of(qname) && best.map(|b| o.num_labels() as usize >= b.1).unwrap_or(true) {
            // (equal label counts cannot happen: origins are distinct)
            best = Some((i, o.num_labels() as usize));
        }
    }
    best.map(|b| b.0)
}

// ------------------------------------------------------------------------------------------
// building the server

fn build_server(p: &Plan) -> Server<Catalog> {
    let mut catalog = Catalog::new();
    for (zi, z) in p.zones.iter().enumerate() {
        let origin = n(ORIGINS[z.origin % ORIGINS.len()]);
        let mut h = InMemoryZoneHandler::<SimProvider>::empty(origin.clone(), ZoneType::Primary, AxfrPolicy::Deny, None);
        let sub = |l: &str| if origin.is_root() { n(&format!("{l}.")) } else { n(&format!("{l}.{origin}")) };
        h.upsert_mut(Record::from_rdata(origin.clone(), 300, RData::SOA(SOA::new(sub(&format!("zone{zi}")), sub("admin"), 1, 3600, 600, 86400, 300))), 0);
        h.upsert_mut(Record::from_rdata(origin.clone(), 300, RData::NS(NS(sub("ns")))), 0);
        h.upsert_mut(Record::from_rdata(origin.clone(), 300, RData::A(A(marker_ip(zi)))), 0);
        h.upsert_mut(Record::from_rdata(origin.clone(), 300, RData::TXT(TXT::new(vec![format!("zone{zi}")]))), 0);
        h.upsert_mut(Record::from_rdata(sub("*"), 300, RData::A(A(marker_ip(zi)))), 0);
        h.upsert_mut(Record::from_rdata(sub("*"), 300, RData::TXT(TXT::new(vec![format!("zone{zi}")]))), 0);
        for k in 0..z.big_txt {
            let body: String = std::iter::repeat((b'a' + (k % 26) as u8) as char).take(z.txt_len.max(1) as usize - 0).collect();
            h.upsert_mut(Record::from_rdata(sub("big"), 300, RData::TXT(TXT::new(vec![format!("{k:05}{body}")]))), 0);
        }
        if z.many_a > 0 {
            // (one pre-built RRset: record-by-record upserts are quadratic)
            let mut set = hickory_proto::rr::RecordSet::new(sub("many"), RecordType::A, 0);
            for k in 0..z.many_a {
                set.insert(Record::from_rdata(sub("many"), 300, RData::A(A(Ipv4Addr::new(10, 98, (k >> 8) as u8, k as u8)))), 0);
            }
            h.records_get_mut().insert(hickory_proto::rr::RrKey::new(LowerName::new(&sub("many")), RecordType::A), Arc::new(set));
        }
        let pad: String = std::iter::repeat('p').take(z.pad as usize % 50).collect();
        for k in 0..z.deleg_ns {
            let target = sub(&format!("ns{k}{pad}.deleg"));
            h.upsert_mut(Record::from_rdata(sub("deleg"), 300, RData::NS(NS(target.clone()))), 0);
            h.upsert_mut(Record::from_rdata(target, 300, RData::A(A(Ipv4Addr::new(10, 97, 0, k)))), 0);
        }
        for k in 0..z.mx_n {
            let target = sub(&format!("mail{k}{pad}"));
            h.upsert_mut(Record::from_rdata(sub("mx"), 300, RData::MX(hickory_proto::rr::rdata::MX::new(10 + k as u16, target.clone()))), 0);
            h.upsert_mut(Record::from_rdata(target, 300, RData::A(A(Ipv4Addr::new(10, 96, 0, k)))), 0);
        }
        for k in 0..z.svc_n {
            use hickory_proto::rr::rdata::svcb::{Alpn, IpHint, SvcParamKey, SvcParamValue, SVCB};
            use hickory_proto::rr::rdata::{AAAA, HTTPS};
            let v4: Vec<A> = (0..z.hint_n).map(|j| A(Ipv4Addr::new(10, 95, k, j))).collect();
            let v6: Vec<AAAA> = (0..z.hint_n / 2).map(|j| AAAA(std::net::Ipv6Addr::new(0x2001, 0xdb8, 0, 0, 0, 0, k as u16, j as u16))).collect();
            let mut params = vec![(SvcParamKey::Alpn, SvcParamValue::Alpn(Alpn(vec!["h2".into(), "h3".into()])))];
            if !v4.is_empty() {
                params.push((SvcParamKey::Ipv4Hint, SvcParamValue::Ipv4Hint(IpHint(v4))));
            }
            if !v6.is_empty() {
                params.push((SvcParamKey::Ipv6Hint, SvcParamValue::Ipv6Hint(IpHint(v6))));
            }
            let svcb = SVCB::new(1 + k as u16, sub(&format!("t{k}{pad}.svc")), params);
            h.upsert_mut(Record::from_rdata(sub("svc"), 300, RData::HTTPS(HTTPS(svcb.clone()))), 0);
            h.upsert_mut(Record::from_rdata(sub("svc"), 300, RData::SVCB(svcb)), 0);
        }
        for k in 0..z.mix_n {
            use hickory_proto::rr::rdata::{caa::KeyValue, CAA, NAPTR, SRV};
            h.upsert_mut(Record::from_rdata(sub("mix"), 300, RData::CAA(CAA::new_issue(false, Some(sub(&format!("ca{k}{pad}"))), vec![KeyValue::new("account", format!("{k}{pad}"))]))), 0);
            h.upsert_mut(Record::from_rdata(sub("mix"), 300, RData::NAPTR(NAPTR::new(100, k as u16, b"u".to_vec().into_boxed_slice(), b"E2U+sip".to_vec().into_boxed_slice(), format!("!^.*$!sip:info{k}{pad}@example.com!").into_bytes().into_boxed_slice(), sub(&format!("r{k}{pad}"))))), 0);
            h.upsert_mut(Record::from_rdata(sub("mix"), 300, RData::SRV(SRV::new(k as u16, 5, 5060, sub(&format!("srv{k}{pad}"))))), 0);
        }
        let real: Arc<dyn ZoneHandler> = Arc::new(h);
        let lower = LowerName::new(&origin);
        let chain: Vec<Arc<dyn ZoneHandler>> = if z.chain == 1 { vec![Arc::new(SkipHandler { origin: lower.clone() }), real] } else { vec![real] };
        catalog.upsert(lower, chain);
    }
    Server::with_access(catalog, p.deny.iter().map(|i| net(*i)), p.allow.iter().map(|i| net(*i)))
}

struct Outcome {
    responses: Vec<Vec<u8>>,
}

/// runs all requests of the plan as concurrent tasks against one server; returns per request
/// the response bytes it received
async fn drive(p: &Plan, server: Rc<Server<Catalog>>) -> Option<Vec<Outcome>> {
    let results: Rc<RefCell<BTreeMap<usize, Outcome>>> = Rc::new(RefCell::new(BTreeMap::new()));
    let mut joins = Vec::new();
    for (i, r) in p.reqs.iter().cloned().enumerate() {
        let server = server.clone();
        let results = results.clone();
        joins.push(exec::spawn(&format!("req{i}"), async move {
            if r.delay_us > 0 {
                exec::sleep_ns(r.delay_us as u64 * 1000).await;
            }
            let bytes = wire_of(&r);
            let ip = SOURCES[r.src % SOURCES.len()];
            let src = SocketAddr::new(IpAddr::V4(Ipv4Addr::from(ip)), 20000 + i as u16);
            let (handle, mut rx) = BufDnsStreamHandle::new(src);
            let proto = if r.tcp { Protocol::Tcp } else { Protocol::Udp };
            exec::yield_now().await;
            server.verif_handle_raw_request(SerialMessage::new(bytes, src), proto, handle).await;
            let mut responses = Vec::new();
            while let Some(Some(m)) = futures_util::FutureExt::now_or_never(rx.next()) {
                responses.push(m.into_parts().0);
            }
            results.borrow_mut().insert(i, Outcome { responses });
        }));
    }
    for j in joins {
        if exec::timeout(std::time::Duration::from_secs(600), j).await.is_err() {
            return None;
        }
    }
    let mut out = Vec::new();
    let mut res = results.borrow_mut();
    for i in 0..p.reqs.len() {
        out.push(res.remove(&i).unwrap_or(Outcome { responses: vec![] }));
    }
    Some(out)
}

fn gen_q(r: &mut Rng, sizes: bool) -> Q {
    let edns = if r.chance(1, 2) || sizes && r.chance(2, 3) {
        {
        let rnd = 1 + r.below(3000) as u16;
        Some(Edns { version: if !sizes && r.chance(1, 5) { 1 + r.below(255) as u8 } else { 0 }, payload: *r.pick(&[0u16, 100, 511, 512, 513, 700, 1232, 1400, 4096, 65535, rnd]), dnssec_ok: r.chance(1, 4) })
    }
    } else {
        None
    };
    Q {
        prefix: r.usize_below(PREFIXES.len()),
        base: r.usize_below(BASES.len()),
        qtype: if sizes { *r.pick(&[16u16, 1, 255, 16, 1]) } else { *r.pick(&[1u16, 1, 1, 16, 16, 2, 6, 28, 255, 252, 251, 41, 0, 65535]) },
        qclass: if !sizes && r.chance(1, 12) { *r.pick(&[3u16, 254, 255, 0]) } else { 1 },
        opcode: if !sizes && r.chance(1, 6) { r.below(16) as u8 } else { 0 },
        qr: !sizes && r.chance(1, 12),
        rd: r.chance(1, 2),
        edns,
    }
}

// ------------------------------------------------------------------------------------------
// C11

pub struct FrontPart;

fn gen_front(seed: u64) -> Plan {
    let mut r = Rng::new(seed);
    let mut sim = SimConfig::from_seed(seed);
    sim.step_budget = 2_000_000;
    let mut zones: Vec<ZoneCfg> = Vec::new();
    for o in 0..ORIGINS.len() {
        if r.chance(if o == 0 { 1 } else { 2 }, 5) {
            zones.push(ZoneCfg { origin: o, chain: r.chance(1, 4) as u8, big_txt: 0, txt_len: 1, many_a: 0, deleg_ns: 0, mx_n: 0, pad: 0, svc_n: 0, hint_n: 0, mix_n: 0 });
        }
    }
    let (mut deny, mut allow) = (vec![], vec![]);
    if r.chance(1, 2) {
        for _ in 0..r.usize_below(3) {
            deny.push(r.usize_below(NETS.len()));
        }
        for _ in 0..r.usize_below(3) {
            allow.push(r.usize_below(NETS.len()));
        }
    }
    let nreq = 3 + r.usize_below(12);
    let mut reqs = Vec::new();
    for i in 0..nreq {
        let kind = match r.below(12) {
            0..=5 => Kind::Valid,
            6 => Kind::Short(r.below(12) as u8),
            7 => Kind::Cut(r.next_u64() as u16),
            8 | 9 => Kind::Mutate(r.next_u64() as u16, r.next_u64() as u8),
            10 => Kind::QdCount(*r.pick(&[0u16, 2, 3, 65535])),
            _ => Kind::Random(r.below(80) as u16, r.next_u64()),
        };
        reqs.push(Req { id: 0x1000 + i as u16 * 7 + (r.below(7) as u16), src: r.usize_below(SOURCES.len()), tcp: r.chance(1, 3), q: gen_q(&mut r, false), kind, delay_us: *r.pick(&[0u32, 0, 1, 50]) });
    }
    Plan { sim, zones, deny, allow, reqs }
}

fn plan_sig(p: &Plan) -> u64 {
    let mut sig = mix(p.zones.len() as u64 ^ (p.deny.len() as u64) << 4 ^ (p.allow.len() as u64) << 8);
    for z in &p.zones {
        sig = mix(sig ^ z.origin as u64 ^ (z.chain as u64) << 4 ^ (z.big_txt as u64) << 8 ^ (z.many_a as u64) << 24 ^ (z.deleg_ns as u64) << 40 ^ (z.mx_n as u64) << 48 ^ (z.pad as u64) << 56);
    }
    for r in &p.reqs {
        let k = match r.kind {
            Kind::Valid => 0,
            Kind::Short(_) => 1,
            Kind::Cut(_) => 2,
            Kind::Mutate(..) => 3,
            Kind::QdCount(_) => 4,
            Kind::Random(..) => 5,
        };
        sig = mix(sig ^ k ^ (r.tcp as u64) << 4 ^ (r.q.opcode as u64) << 5 ^ (r.q.qr as u64) << 9 ^ (r.q.edns.as_ref().map(|e| 1 + (e.version > 0) as u64).unwrap_or(0)) << 10 ^ (r.q.base as u64) << 12 ^ (r.q.qtype as u64) << 16);
    }
    sig
}

fn shrink_plan(p: &Plan) -> Vec<Plan> {
    let mut out = Vec::new();
    if p.reqs.len() > 1 {
        for i in 0..p.reqs.len() {
            let mut q = p.clone();
            q.reqs.remove(i);
            out.push(q);
        }
    }
    for i in 0..p.zones.len() {
        let mut q = p.clone();
        q.zones.remove(i);
        out.push(q);
        if p.zones[i].chain != 0 {
            let mut q = p.clone();
            q.zones[i].chain = 0;
            out.push(q);
        }
        if p.zones[i].big_txt > 1 {
            let mut q = p.clone();
            q.zones[i].big_txt /= 2;
            out.push(q);
        }
        if p.zones[i].deleg_ns > 0 {
            let mut q = p.clone();
            q.zones[i].deleg_ns -= 1;
            out.push(q);
        }
        if p.zones[i].mx_n > 0 {
            let mut q = p.clone();
            q.zones[i].mx_n -= 1;
            out.push(q);
        }
        if p.zones[i].many_a > 1 {
            let mut q = p.clone();
            q.zones[i].many_a /= 2;
            out.push(q);
        }
    }
    for i in 0..p.deny.len() {
        let mut q = p.clone();
        q.deny.remove(i);
        out.push(q);
    }
    for i in 0..p.allow.len() {
        let mut q = p.clone();
        q.allow.remove(i);
        out.push(q);
    }
    for i in 0..p.reqs.len() {
        if p.reqs[i].kind != Kind::Valid {
            continue;
        }
        if p.reqs[i].q.edns.is_some() {
            let mut q = p.clone();
            q.reqs[i].q.edns = None;
            out.push(q);
        }
        if p.reqs[i].q.rd {
            let mut q = p.clone();
            q.reqs[i].q.rd = false;
            out.push(q);
        }
        if p.reqs[i].delay_us != 0 {
            let mut q = p.clone();
            q.reqs[i].delay_us = 0;
            out.push(q);
        }
    }
    if p.sim.policy != hsim::SchedPolicy::Fifo {
        let mut q = p.clone();
        q.sim.policy = hsim::SchedPolicy::Fifo;
        out.push(q);
    }
    out
}

impl Part for FrontPart {
    fn name(&self) -> &'static str {
        "front"
    }
    fn runs(&self, tier: Tier) -> u64 {
        match tier {
            Tier::Quick => 20_000,
            Tier::Thorough => 600_000,
        }
    }
    fn block(&self, _t: Tier) -> u64 {
        64
    }
    fn gen(&self, seed: u64, _tier: Tier) -> Value {
        serde_json::to_value(gen_front(seed)).unwrap()
    }
    fn run(&self, plan: &Value, trace: bool) -> Report {
        let mut p: Plan = serde_json::from_value(plan.clone()).expect("plan");
        p.sim.trace = trace;
        let sig = plan_sig(&p);
        let nontrivial = p.reqs.iter().any(|r| r.kind != Kind::Valid || r.q.opcode != 0 || r.q.qr) || p.zones.len() > 1 || !p.deny.is_empty();
        let p2 = p.clone();
        let out = exec::run(&p.sim, async move { front_scenario(p2).await });
        finish(out, sig, nontrivial, "C11.stall")
    }
    fn shrink(&self, plan: &Value) -> Vec<Value> {
        let Ok(p) = serde_json::from_value::<Plan>(plan.clone()) else { return vec![] };
        shrink_plan(&p).into_iter().map(|q| serde_json::to_value(q).unwrap()).collect()
    }
    fn describe(&self) -> Describe {
        Describe {
            rule: "plan = (catalog: subset of {., example., sub.example., deep.sub.example., other., xample., ub.example.} each a real in-memory zone with a zone marker in its apex and wildcard data, optionally behind a Skip handler; allow/deny sets from 8 nested/overlapping networks; 3-14 concurrent requests from 6 sources over UDP/TCP: constructed-valid queries (names over 9 bases x 5 prefixes incl. look-alike suffixes and mixed case, 14 types, odd classes, every opcode, QR=1, EDNS version 0-255 and payload sizes), prefixes shorter than a header, truncations inside question/OPT, single-byte mutations, question counts 0/2/3/65535, random bytes); non-trivial = any hostile request, several zones or access rules; distinct by catalog, access sets and request classes".into(),
            real: vec!["hickory_server::Server (ServerContext::handle_raw_request / handle_request: header gate, access control, request parsing)", "AccessControl", "Catalog::{handle_request, lookup, find, update}", "InMemoryZoneHandler", "MessageResponse encoding through ResponseHandle"],
            stub: vec!["the tokio UDP / TCP socket loops (handle_udp / handle_tcp): the rig calls the same entry point once per request from a simulator task", "Skip zone handler"],
            assumptions: vec!["for corrupted requests only the count / id / QR clauses are asserted (what 'does not parse' means is not re-derived)", "denied source + unknown opcode may answer NOTIMP or REFUSED"],
        }
    }
}

async fn front_scenario(mut p: Plan) {
    // a last, certainly valid probe: the server must still be serving
    if let Some(z) = p.zones.first() {
        let base = BASES.iter().position(|b| *b == ORIGINS[z.origin % ORIGINS.len()]).unwrap_or(0);
        p.reqs.push(Req { id: 0x7777, src: 4, tcp: false, q: Q { prefix: 1, base, qtype: 1, qclass: 1, opcode: 0, qr: false, rd: false, edns: None }, kind: Kind::Valid, delay_us: 500 });
    }
    let server = Rc::new(build_server(&p));
    let Some(outcomes) = drive(&p, server).await else {
        exec::violate("C11.no-response", "pending", "a request was still being handled after 10 simulated minutes".into());
        return;
    };
    for (i, (r, o)) in p.reqs.iter().zip(outcomes.iter()).enumerate() {
        let bytes = wire_of(r);
        let class = match r.kind {
            Kind::Valid => "valid",
            Kind::Short(_) => "short",
            Kind::Cut(_) => "cut",
            Kind::Mutate(..) => "mutated",
            Kind::QdCount(_) => "qdcount",
            Kind::Random(..) => "random",
        };
        let is_response = bytes.len() >= 12 && bytes[2] & 0x80 != 0;
        let expect_none = bytes.len() < 12 || is_response;
        exec::count(&format!("probe.request.{class}"));
        if expect_none {
            exec::count("probe.expect_silence");
            if !o.responses.is_empty() {
                let why = if bytes.len() < 12 { "shorter-than-header" } else { "qr-set" };
                if exec::violate("C11.reply-to-non-request", why, format!("request {i} ({class}, {} bytes, QR={}) got {} response(s): {:02x?}", bytes.len(), is_response, o.responses.len(), &bytes[..bytes.len().min(16)])) {
                    return;
                }
            }
            continue;
        }
        if o.responses.len() != 1 {
            let shape = format!("{class}:{}", o.responses.len().min(2));
            if exec::violate("C11.response-count", &shape, format!("request {i} ({class}, {} bytes) got {} responses; request {:02x?}", bytes.len(), o.responses.len(), &bytes[..bytes.len().min(48)])) {
                return;
            }
            continue;
        }
        let resp = &o.responses[0];
        if resp.len() < 12 || resp[0..2] != bytes[0..2] || resp[2] & 0x80 == 0 {
            if exec::violate("C11.id-or-qr", class, format!("request {i}: response header {:02x?} for request header {:02x?}", &resp[..resp.len().min(12)], &bytes[..12])) {
                return;
            }
            continue;
        }
        let rcode_low = resp[3] & 0x0F;
        let opcode = (bytes[2] >> 3) & 0x0F;
        if r.kind != Kind::Valid {
            // an unsupported opcode is visible in the header whatever follows
            if ![0u8, 2, 4, 5].contains(&opcode) && rcode_low != 4 {
                if exec::violate("C11.rcode", &format!("{class}:unknown-opcode"), format!("request {i}: opcode {opcode} answered with rcode {rcode_low}")) {
                    return;
                }
            }
            continue;
        }
        // ---- constructed-valid request: the full contract ----------------------------------------
        let Ok(m) = Message::from_vec(resp) else {
            if exec::violate("C11.undecodable-response", "", format!("request {i}: response does not decode: {resp:02x?}")) {
                return;
            }
            continue;
        };
        let rcode = m.metadata.response_code;
        let src = Ipv4Addr::from(SOURCES[r.src % SOURCES.len()]);
        let allowed = ref_allowed(&p.deny, &p.allow, src);
        let qname = n(&qname_of(&r.q));
        let known_opcode = [0u8, 2, 4, 5].contains(&r.q.opcode);
        let expect: Vec<ResponseCode> = if !known_opcode {
            if allowed {
                vec![ResponseCode::NotImp]
            } else {
                vec![ResponseCode::NotImp, ResponseCode::Refused]
            }
        } else if !allowed {
            vec![ResponseCode::Refused]
        } else if r.q.edns.as_ref().map(|e| e.version > 0).unwrap_or(false) {
            vec![ResponseCode::BADVERS]
        } else if r.q.opcode == 2 || r.q.opcode == 4 {
            vec![ResponseCode::NotImp]
        } else if r.q.opcode == 5 {
            // UPDATE: zones here accept none; any single refusal code will do
            vec![ResponseCode::Refused, ResponseCode::NotAuth, ResponseCode::NotImp, ResponseCode::FormErr, ResponseCode::NotZone, ResponseCode::ServFail]
        } else {
            match ref_zone(&p.zones, &qname) {
                None => vec![ResponseCode::Refused],
                Some(_) => vec![], // judged below
            }
        };
        let what = format!("request {i}: {} type {} class {} opcode {} edns {:?} from {src} over {}", qname, r.q.qtype, r.q.qclass, r.q.opcode, r.q.edns, if r.tcp { "tcp" } else { "udp" });
        if !expect.is_empty() {
            exec::count(&format!("probe.expect.{:?}", expect[0]));
            // (BADVERS and BADSIG share the value 16: compare numbers)
            if !expect.iter().any(|e| u16::from(*e) == u16::from(rcode)) {
                let shape = format!("want-{:?}:got-{:?}", expect[0], rcode);
                if exec::violate("C11.rcode", &shape, format!("{what}: expected {expect:?}, got {rcode:?}; zones {:?} deny {:?} allow {:?}", p.zones.iter().map(|z| ORIGINS[z.origin]).collect::<Vec<_>>(), p.deny.iter().map(|i| NETS[*i]).collect::<Vec<_>>(), p.allow.iter().map(|i| NETS[*i]).collect::<Vec<_>>())) {
                    return;
                }
            }
        }
        // the question comes back (requests that were accepted as a query or update)
        if known_opcode {
            let echoed = m.queries.first();
            let same = echoed.map(|e| e.name == qname && u16::from(e.query_type) == r.q.qtype && u16::from(e.query_class) == r.q.qclass).unwrap_or(false);
            if !same {
                if exec::violate("C11.question-echo", &format!("{rcode:?}"), format!("{what}: response question {:?}", echoed.map(|e| e.to_string()))) {
                    return;
                }
            }
        }
        // the right zone
        if expect.is_empty() {
            let zi = ref_zone(&p.zones, &qname).unwrap();
            exec::count("probe.expect.zone-answer");
            if rcode == ResponseCode::Refused && r.q.qtype != 252 && r.q.qtype != 251 {
                if exec::violate("C11.rcode", "refused-although-zone-encloses", format!("{what}: REFUSED although zone {} encloses the name", ORIGINS[p.zones[zi].origin])) {
                    return;
                }
                continue;
            }
            if r.q.qclass == 1 && (r.q.qtype == 1 || r.q.qtype == 16) && !qname.to_ascii().to_lowercase().starts_with("big.") && !qname.to_ascii().to_lowercase().starts_with("many.") {
                let markers: Vec<String> = m
                    .answers
                    .iter()
                    .filter_map(|rec| match &rec.data {
                        RData::A(A(ip)) => Some(ip.to_string()),
                        RData::TXT(t) => Some(t.to_string()),
                        _ => None,
                    })
                    .collect();
                let want = if r.q.qtype == 1 { marker_ip(zi).to_string() } else { format!("zone{zi}") };
                // a query name that itself starts with an asterisk label: whether the zone's wildcard
                // is expanded for it is the lookup algorithm's business (C10); here the zone is then
                // identified by the SOA of its negative answer (MNAME = zone<i>.<origin>)
                let literal_wildcard_negative = markers.is_empty()
                    && qname.to_ascii().starts_with('*')
                    && m.authorities.iter().any(|rec| matches!(&rec.data, RData::SOA(soa) if soa.mname.to_ascii().starts_with(&format!("zone{zi}."))));
                if literal_wildcard_negative {
                    exec::count("probe.literal_wildcard_qname_negative_from_right_zone");
                } else if markers.len() != 1 || markers[0] != want {
                    let shape = if markers.is_empty() { "no-answer" } else { "other-zone" };
                    if exec::violate("C11.wrong-zone", shape, format!("{what}: answered {markers:?} (rcode {rcode:?}), the longest enclosing zone is {} (marker {want}); zones {:?}", ORIGINS[p.zones[zi].origin], p.zones.iter().map(|z| (ORIGINS[z.origin], z.chain)).collect::<Vec<_>>())) {
                        return;
                    }
                }
            }
        }
    }
}

// ------------------------------------------------------------------------------------------
// C03 (server path)

pub struct SizesPart;

fn gen_sizes(seed: u64) -> Plan {
    let mut r = Rng::new(seed);
    let mut sim = SimConfig::from_seed(seed);
    sim.step_budget = 4_000_000;
    let origin = 1 + r.usize_below(3);
    let zones = vec![ZoneCfg { origin, chain: 0, big_txt: *r.pick(&[0u16, 1, 2, 3, 5, 9, 20, 60, 300]), txt_len: *r.pick(&[1u8, 10, 40, 100, 200, 249]), many_a: if r.chance(1, 40) { 4200 } else if r.chance(1, 15) { 1000 } else { *r.pick(&[0u16, 1, 20, 28, 29, 30, 31, 32, 60, 200]) }, deleg_ns: *r.pick(&[0u8, 1, 2, 4, 6, 8, 13]), mx_n: *r.pick(&[0u8, 1, 3, 6, 12]), pad: r.below(50) as u8, svc_n: 0, hint_n: 0, mix_n: 0 }];
    let mut zones = zones;
    // (drawn after everything else of the zone so that earlier plans keep their shape)
    let extra = (*r.pick(&[0u8, 1, 1, 2, 4, 9]), *r.pick(&[0u8, 1, 2, 7, 20, 60, 110, 250]), *r.pick(&[0u8, 0, 1, 3, 8, 30]));
    let base = BASES.iter().position(|b| *b == ORIGINS[origin]).unwrap_or(1);
    let nreq = 1 + r.usize_below(4);
    let mut reqs = Vec::new();
    for i in 0..nreq {
        let mut q = gen_q(&mut r, true);
        q.base = base;
        // "big." / "many." / wildcard names
        q.prefix = 100 + r.usize_below(8);
        match q.prefix {
            106 => q.qtype = *r.pick(&[65u16, 65, 64, 255]),
            107 => q.qtype = *r.pick(&[255u16, 257, 35, 33]),
            103 => q.qtype = *r.pick(&[1u16, 16, 2]),
            104 => q.qtype = *r.pick(&[2u16, 2, 255, 1]),
            105 => q.qtype = *r.pick(&[15u16, 15, 255]),
            _ => {}
        }
        reqs.push(Req { id: 0x2000 + i as u16, src: 0, tcp: false, q, kind: Kind::Valid, delay_us: 0 });
    }
    zones[0].svc_n = extra.0;
    zones[0].hint_n = extra.1;
    zones[0].mix_n = extra.2;
    Plan { sim, zones, deny: vec![], allow: vec![], reqs }
}

fn sizes_qname(q: &Q) -> String {
    let base = BASES[q.base % BASES.len()];
    let p = match q.prefix {
        100 => "big.",
        101 => "many.",
        103 => "x.deleg.",
        104 => "deleg.",
        105 => "mx.",
        106 => "svc.",
        107 => "mix.",
        _ => "other-name.",
    };
    format!("{p}{base}")
}

impl Part for SizesPart {
    fn name(&self) -> &'static str {
        "sizes"
    }
    fn runs(&self, tier: Tier) -> u64 {
        match tier {
            Tier::Quick => 8_000,
            Tier::Thorough => 300_000,
        }
    }
    fn block(&self, _t: Tier) -> u64 {
        32
    }
    fn gen(&self, seed: u64, _tier: Tier) -> Value {
        serde_json::to_value(gen_sizes(seed)).unwrap()
    }
    fn run(&self, plan: &Value, trace: bool) -> Report {
        let mut p: Plan = serde_json::from_value(plan.clone()).expect("plan");
        p.sim.trace = trace;
        let sig = plan_sig(&p) ^ mix(p.reqs.iter().map(|r| r.q.edns.as_ref().map(|e| e.payload as u64).unwrap_or(7)).fold(0, |a, b| mix(a ^ b)));
        let nontrivial = p.zones.iter().any(|z| z.big_txt > 2 || z.many_a > 20 || z.deleg_ns > 3 || z.mx_n > 3 || (z.svc_n > 0 && z.hint_n > 6) || z.mix_n > 2);
        let p2 = p.clone();
        let out = exec::run(&p.sim, async move { sizes_scenario(p2).await });
        finish(out, sig, nontrivial, "C03.stall")
    }
    fn shrink(&self, plan: &Value) -> Vec<Value> {
        let Ok(p) = serde_json::from_value::<Plan>(plan.clone()) else { return vec![] };
        shrink_plan(&p).into_iter().map(|q| serde_json::to_value(q).unwrap()).collect()
    }
    fn describe(&self) -> Describe {
        Describe {
            rule: "plan = (one zone with 0-300 TXT records of 1-249 bytes at big.<zone> and 0-4200 A records at many.<zone>; 1-4 queries for TXT / A / ANY at those names with no EDNS or EDNS payload sizes {0,100,511,512,513,700,1232,1400,4096,65535,random}, DO on/off), every query sent over UDP and, as a twin, over TCP to the same server; non-trivial = RRsets large enough to meet a limit; distinct by RRset sizes, advertised sizes and question".into(),
            real: vec!["hickory_server::Server front gate (hook)", "Catalog lookup / build_response", "MessageResponse::encode (size limit per protocol and EDNS), emit_message_parts, BinEncoder max size / rollback / TC"],
            stub: vec!["the tokio socket loops"],
            assumptions: vec!["the encoder-level clause for arbitrary messages x arbitrary limits is a pure function and is not claimed beyond what these responses reach"],
        }
    }
}

async fn sizes_scenario(p: Plan) {
    // twin plan: every request once over UDP and once over TCP
    let mut twin = p.clone();
    twin.reqs.clear();
    for r in &p.reqs {
        let mut u = r.clone();
        u.tcp = false;
        let mut t = r.clone();
        t.tcp = true;
        twin.reqs.push(u);
        twin.reqs.push(t);
    }
    // the sizes part addresses names through its own prefix table: rewrite into wire via a
    // patched encoder
    let server = Rc::new(build_server(&twin));
    let results: Rc<RefCell<BTreeMap<usize, Vec<Vec<u8>>>>> = Rc::new(RefCell::new(BTreeMap::new()));
    let mut joins = Vec::new();
    for (i, r) in twin.reqs.iter().cloned().enumerate() {
        let server = server.clone();
        let results = results.clone();
        joins.push(exec::spawn(&format!("req{i}"), async move {
            let bytes = sizes_wire(&r);
            let src = SocketAddr::new(IpAddr::V4(Ipv4Addr::new(10, 0, 0, 1)), 30000 + i as u16);
            let (handle, mut rx) = BufDnsStreamHandle::new(src);
            exec::yield_now().await;
            server.verif_handle_raw_request(SerialMessage::new(bytes, src), if r.tcp { Protocol::Tcp } else { Protocol::Udp }, handle).await;
            let mut v = Vec::new();
            while let Some(Some(m)) = futures_util::FutureExt::now_or_never(rx.next()) {
                v.push(m.into_parts().0);
            }
            results.borrow_mut().insert(i, v);
        }));
    }
    for j in joins {
        if exec::timeout(std::time::Duration::from_secs(600), j).await.is_err() {
            exec::violate("C03.stall", "pending", "a request was still being handled after 10 simulated minutes".into());
            return;
        }
    }
    let results = results.borrow();
    for k in 0..p.reqs.len() {
        let r = &p.reqs[k];
        let (Some(u), Some(t)) = (results.get(&(2 * k)), results.get(&(2 * k + 1))) else { continue };
        let what = format!("{} type {} edns {:?}; zone big_txt={} txt_len={} many_a={} deleg_ns={} mx_n={} pad={} svc_n={} hint_n={} mix_n={}", sizes_qname(&r.q), r.q.qtype, r.q.edns, p.zones[0].big_txt, p.zones[0].txt_len, p.zones[0].many_a, p.zones[0].deleg_ns, p.zones[0].mx_n, p.zones[0].pad, p.zones[0].svc_n, p.zones[0].hint_n, p.zones[0].mix_n);
        if u.len() != 1 || t.len() != 1 {
            if exec::violate("C03.response-count", "", format!("{what}: {} UDP and {} TCP responses", u.len(), t.len())) {
                return;
            }
            continue;
        }
        let (u, t) = (&u[0], &t[0]);
        let advertised = r.q.edns.as_ref().map(|e| e.payload as usize).unwrap_or(512);
        let limit = advertised.max(512);
        exec::count(&format!("probe.udp_len.le{}", [512usize, 1232, 4096, 65535].iter().find(|b| u.len() <= **b).unwrap_or(&65535)));
        if u.len() > limit {
            let shape = if r.q.edns.is_some() { if advertised < 512 { "edns-below-512" } else { "edns" } } else { "no-edns" };
            if exec::violate("C03.udp-over-limit", shape, format!("{what}: UDP response of {} bytes, limit {limit}", u.len())) {
                return;
            }
        }
        if t.len() > 65535 {
            if exec::violate("C03.tcp-over-limit", "", format!("{what}: TCP response of {} bytes", t.len())) {
                return;
            }
        }
        for (proto, bytes) in [("udp", u), ("tcp", t)] {
            match walk_message(bytes) {
                Some(end) if end == bytes.len() => {}
                other => {
                    if exec::violate("C03.framing", &format!("{proto}:{}", if other.is_some() { "trailing-bytes" } else { "counts-exceed-content" }), format!("{what}: the {proto} response of {} bytes walks to {other:?} by its header counts", bytes.len())) {
                        return;
                    }
                }
            }
        }
        let (Ok(um), Ok(tm)) = (Message::from_vec(u), Message::from_vec(t)) else {
            if exec::violate("C03.undecodable", "", format!("{what}: a response does not decode")) {
                return;
            }
            continue;
        };
        let full = !tm.metadata.truncation;
        if !full {
            exec::count("probe.tcp_twin_truncated");
        }
        let mut dropped = false;
        for (sec, us, ts) in [("answers", &um.answers, &tm.answers), ("authorities", &um.authorities, &tm.authorities), ("additionals", &um.additionals, &tm.additionals)] {
            if us.len() > ts.len() || us.iter().zip(ts.iter()).any(|(a, b)| a != b) {
                if exec::violate("C03.not-a-prefix", sec, format!("{what}: the UDP {sec} ({} records) are not a prefix of the TCP twin's ({} records)", us.len(), ts.len())) {
                    return;
                }
            }
            if us.len() < ts.len() {
                dropped = true;
            }
        }
        // the OPT pseudo-record is a record of the additional section, too
        if tm.edns.is_some() && um.edns.is_none() {
            dropped = true;
            exec::count("probe.udp_opt_dropped");
        }
        exec::log(&format!("{what}: udp {} bytes an={} ns={} ar={} opt={} tc={} / tcp {} bytes an={} ns={} ar={} opt={} tc={}", u.len(), um.answers.len(), um.authorities.len(), um.additionals.len(), um.edns.is_some(), um.metadata.truncation, t.len(), tm.answers.len(), tm.authorities.len(), tm.additionals.len(), tm.edns.is_some(), tm.metadata.truncation));
        if exec::tracing() && std::env::var("C03_HEX").is_ok() {
            exec::log(&format!("  udp hex {}", u.iter().map(|b| format!("{b:02x}")).collect::<String>())); exec::log(&format!("  tcp hex {}", t.iter().map(|b| format!("{b:02x}")).collect::<String>()));
        }
        if exec::tracing() {
            exec::log(&format!("  tcp answers {:?} additionals {:?}", tm.answers.iter().take(14).map(|r| format!("{}", r.data)).collect::<Vec<_>>(), tm.additionals.iter().take(14).map(|r| r.name.to_string()).collect::<Vec<_>>()));
        }
        if dropped {
            exec::count("probe.udp_truncated");
        }
        if dropped && !um.metadata.truncation {
            if exec::violate("C03.tc-missing", "", format!("{what}: the UDP response ({} bytes, {} answers) dropped records of the twin ({} answers) but TC is clear", u.len(), um.answers.len(), tm.answers.len())) {
                return;
            }
        }
        if !dropped && um.metadata.truncation && full {
            if exec::violate("C03.tc-spurious", "", format!("{what}: TC is set although the UDP response carries everything the TCP twin does")) {
                return;
            }
        }
        if um.queries != tm.queries || um.metadata.response_code != tm.metadata.response_code {
            if exec::violate("C03.twin-differs", "", format!("{what}: UDP rcode {:?} / TCP rcode {:?}", um.metadata.response_code, tm.metadata.response_code)) {
                return;
            }
        }
    }
}

fn sizes_wire(r: &Req) -> Vec<u8> {
    let q = &r.q;
    let mut b = Vec::new();
    b.extend_from_slice(&r.id.to_be_bytes());
    let flags: u16 = (q.rd as u16) << 8;
    b.extend_from_slice(&flags.to_be_bytes());
    b.extend_from_slice(&1u16.to_be_bytes());
    b.extend_from_slice(&0u16.to_be_bytes());
    b.extend_from_slice(&0u16.to_be_bytes());
    b.extend_from_slice(&(q.edns.is_some() as u16).to_be_bytes());
    put_name(&mut b, &sizes_qname(q));
    b.extend_from_slice(&q.qtype.to_be_bytes());
    b.extend_from_slice(&1u16.to_be_bytes());
    if let Some(e) = &q.edns {
        b.push(0);
        b.extend_from_slice(&41u16.to_be_bytes());
        b.extend_from_slice(&e.payload.to_be_bytes());
        let ttl: u32 = (e.dnssec_ok as u32) << 15;
        b.extend_from_slice(&ttl.to_be_bytes());
        b.extend_from_slice(&0u16.to_be_bytes());
    }
    b
}


// ------------------------------------------------------------------------------------------
// C11, one TCP connection: the requests of a run are pipelined by a raw client over a simulated
// byte pipe (seeded chunking / Pending / cut), framed on the server side by the real
// `hickory_net::tcp::TcpStream`, handled one at a time exactly as `handle_tcp` does, and the
// responses travel back through the stream's outbound queue.

#[derive(Serialize, Deserialize, Clone, Debug)]
struct ConnPlan {
    sim: SimConfig,
    zones: Vec<ZoneCfg>,
    deny: Vec<usize>,
    allow: Vec<usize>,
    reqs: Vec<Req>,
    src: usize,
    c2s: hsim::net::PipePlan,
    s2c: hsim::net::PipePlan,
    /// the client closes its sending side after the last request
    half_close: bool,
    buffer: u8,
}

pub struct ConnPart;

impl Part for ConnPart {
    fn name(&self) -> &'static str {
        "tcp-connection"
    }
    fn runs(&self, tier: Tier) -> u64 {
        match tier {
            Tier::Quick => 8_000,
            Tier::Thorough => 400_000,
        }
    }
    fn block(&self, _t: Tier) -> u64 {
        32
    }
    fn gen(&self, seed: u64, _tier: Tier) -> Value {
        let base = gen_front(seed);
        let mut r = Rng::new(mix(seed ^ 0x7c9));
        let mut reqs = base.reqs;
        reqs.truncate(1 + r.usize_below(8));
        let total: usize = reqs.iter().map(|q| wire_of(q).len() + 2).sum();
        let mut c2s = super::c17::gen_pipe(&mut r, total);
        c2s.capacity = 0;
        if r.chance(1, 4) {
            c2s.cut = Some((r.below(total as u64 + 1), if r.chance(1, 2) { hsim::net::CutKind::Eof } else { hsim::net::CutKind::Reset }));
        }
        let mut s2c = super::c17::gen_pipe(&mut r, 600);
        s2c.capacity = 0;
        serde_json::to_value(ConnPlan { sim: base.sim, zones: base.zones, deny: base.deny, allow: base.allow, reqs, src: r.usize_below(SOURCES.len()), c2s, s2c, half_close: r.chance(1, 3), buffer: 32 }).unwrap()
    }
    fn run(&self, plan: &Value, trace: bool) -> Report {
        let mut p: ConnPlan = serde_json::from_value(plan.clone()).expect("plan");
        p.sim.trace = trace;
        let fp = Plan { sim: p.sim.clone(), zones: p.zones.clone(), deny: p.deny.clone(), allow: p.allow.clone(), reqs: p.reqs.clone() };
        let sig = mix(plan_sig(&fp) ^ (p.c2s.cut.is_some() as u64) << 1 ^ (p.half_close as u64) << 2 ^ (p.c2s.write_sizes.len() as u64) << 8 ^ (p.s2c.write_sizes.len() as u64) << 16 ^ (p.c2s.read_pending.len() as u64) << 24);
        let p2 = p.clone();
        let out = exec::run(&p.sim, async move { conn_scenario(p2).await });
        finish(out, sig, p.reqs.len() > 1, "C11.stall")
    }
    fn shrink(&self, plan: &Value) -> Vec<Value> {
        let Ok(p) = serde_json::from_value::<ConnPlan>(plan.clone()) else { return vec![] };
        let mut out: Vec<ConnPlan> = Vec::new();
        if p.reqs.len() > 1 {
            for i in 0..p.reqs.len() {
                let mut q = p.clone();
                q.reqs.remove(i);
                out.push(q);
            }
        }
        for i in 0..p.zones.len() {
            let mut q = p.clone();
            q.zones.remove(i);
            out.push(q);
        }
        if !p.deny.is_empty() || !p.allow.is_empty() {
            let mut q = p.clone();
            q.deny.clear();
            q.allow.clear();
            out.push(q);
        }
        if p.c2s.cut.is_some() {
            let mut q = p.clone();
            q.c2s.cut = None;
            out.push(q);
        }
        if p.half_close {
            let mut q = p.clone();
            q.half_close = false;
            out.push(q);
        }
        for dir in 0..2 {
            let pl = if dir == 0 { &p.c2s } else { &p.s2c };
            if !pl.write_sizes.is_empty() || !pl.read_sizes.is_empty() || !pl.write_pending.is_empty() || !pl.read_pending.is_empty() || !pl.flush_pending.is_empty() || pl.latency_ns != 0 {
                let mut q = p.clone();
                let t = if dir == 0 { &mut q.c2s } else { &mut q.s2c };
                let cut = t.cut;
                *t = hsim::net::PipePlan::default();
                t.cut = cut;
                out.push(q);
            }
        }
        if p.sim.policy != hsim::SchedPolicy::Fifo {
            let mut q = p.clone();
            q.sim.policy = hsim::SchedPolicy::Fifo;
            out.push(q);
        }
        out.into_iter().map(|q| serde_json::to_value(q).unwrap()).collect()
    }
    fn describe(&self) -> Describe {
        Describe {
            rule: "plan = (catalog and access sets as in `front`; 1-8 requests of the same classes pipelined on one TCP connection by a raw client; both directions of the connection with seeded write/read chunk sizes, injected Pending on read/write/flush, latency; the client-to-server direction optionally cut (EOF or reset) at any byte; the client optionally half-closes after the last request); non-trivial = more than one request; distinct by request classes, cut and chunking".into(),
            real: vec!["hickory_net::tcp::TcpStream (server side framing, outbound queue)", "hickory_server::server::TimeoutStream (zero timeout)", "Server front gate (hook) / Catalog / InMemoryZoneHandler"],
            stub: vec!["SimTcp byte pipe", "the accept loop of handle_tcp (the per-connection loop is reproduced line by line)", "raw TCP client"],
            assumptions: vec!["a response is demanded for every request whose frame was delivered completely before a zero-length frame, unless the client resets the connection"],
        }
    }
}

async fn conn_scenario(p: ConnPlan) {
    use hickory_net::tcp::TcpStream;
    use hickory_server::server::TimeoutStream;
    let fp = Plan { sim: p.sim.clone(), zones: p.zones.clone(), deny: p.deny.clone(), allow: p.allow.clone(), reqs: vec![] };
    let server = Rc::new(build_server(&fp));
    let src = SocketAddr::new(IpAddr::V4(Ipv4Addr::from(SOURCES[p.src % SOURCES.len()])), 40000);
    let (mut client, server_end) = hsim::net::tcp_pair(p.c2s.clone(), p.s2c.clone());
    // ---- the per-connection loop of handle_tcp ---------------------------------------------------
    {
        let server = server.clone();
        let buffer = p.buffer.max(1) as usize;
        exec::spawn("connection", async move {
            let (buf_stream, stream_handle) = TcpStream::from_stream_with_buffer_size(server_end, src, buffer);
            let mut timeout_stream = TimeoutStream::new(buf_stream, std::time::Duration::ZERO);
            while let Some(message) = timeout_stream.next().await {
                let message = match message {
                    Ok(message) => message,
                    Err(e) => {
                        exec::log(&format!("connection: stream error {e}"));
                        return;
                    }
                };
                server.verif_handle_raw_request(message, Protocol::Tcp, stream_handle.clone()).await;
            }
            exec::log("connection: stream ended");
        });
    }
    // ---- the client ------------------------------------------------------------------------------
    let wires: Vec<Vec<u8>> = p.reqs.iter().map(|r| { let mut r = r.clone(); r.src = p.src; wire_of(&r) }).collect();
    let mut sent = 0u64;
    let mut delivered_frames = 0usize;
    let cut_at = p.c2s.cut.map(|c| c.0);
    let reset = matches!(p.c2s.cut, Some((_, hsim::net::CutKind::Reset)));
    let mut writer = client.dup();
    let frames: Vec<Vec<u8>> = wires
        .iter()
        .map(|w| {
            let mut f = (w.len() as u16).to_be_bytes().to_vec();
            f.extend_from_slice(w);
            f
        })
        .collect();
    // a zero-length frame is a framing error: the server may (and does) end the connection there
    let mut framing_broken = false;
    for f in &frames {
        let end = sent + f.len() as u64;
        if f.len() == 2 {
            framing_broken = true;
        }
        if !framing_broken && cut_at.map(|c| end <= c).unwrap_or(true) {
            delivered_frames += 1;
        }
        sent = end;
    }
    if framing_broken {
        exec::count("fault.tcp_zero_length_frame");
    }
    let half_close = p.half_close;
    exec::spawn("client-writer", async move {
        for f in frames {
            if writer.write_all(&f).await.is_err() {
                return;
            }
        }
        if half_close {
            writer.shutdown_write();
        }
        std::future::pending::<()>().await;
    });
    // expected responses, in order (the connection handles one request at a time)
    let mut expected: Vec<(usize, [u8; 2])> = Vec::new();
    for (i, w) in wires.iter().enumerate().take(delivered_frames) {
        if w.len() >= 12 && w[2] & 0x80 == 0 {
            expected.push((i, [w[0], w[1]]));
        }
    }
    let mut got: Vec<Vec<u8>> = Vec::new();
    let read_all = async {
        loop {
            let mut hdr = [0u8; 2];
            if client.read_exact(&mut hdr).await.is_err() {
                break;
            }
            let mut body = vec![0u8; u16::from_be_bytes(hdr) as usize];
            if client.read_exact(&mut body).await.is_err() {
                break;
            }
            got.push(body);
        }
    };
    // nothing in this run takes longer than a few simulated seconds
    let _ = exec::timeout(std::time::Duration::from_secs(30), read_all).await;
    exec::count(&format!("probe.tcp.delivered_frames.{}", delivered_frames.min(8)));
    // ---- judgement -------------------------------------------------------------------------------
    // never more responses than eligible requests, ids in request order
    for (k, resp) in got.iter().enumerate() {
        let Some((i, id)) = expected.get(k) else {
            exec::violate("C11.response-count", "tcp:extra-response", format!("response #{k} ({:02x?}...) on a connection whose {} delivered frames hold {} requests that may be answered", &resp[..resp.len().min(12)], delivered_frames, expected.len()));
            return;
        };
        if resp.len() < 12 || resp[0..2] != id[..] || resp[2] & 0x80 == 0 {
            if exec::violate("C11.id-or-qr", "tcp", format!("response #{k} has header {:02x?}, request {i} has id {:02x?}", &resp[..resp.len().min(12)], id)) {
                return;
            }
        }
    }
    // every eligible request is answered while the client is still listening and sending nothing
    // wrong: no reset, no half-close, no cut (a cut mid-frame makes the server end the connection)
    // (a half-close or an EOF in the middle of a later frame leaves the other direction open:
    // what was delivered completely before is still answered)
    let client_stays = !reset;
    if client_stays && got.len() < expected.len() {
        let (i, _) = expected[got.len()];
        exec::violate("C11.response-count", "tcp:missing-response", format!("request {i} of {} on one TCP connection ({} bytes, class {:?}) was never answered; {} responses arrived for {} eligible requests", p.reqs.len(), wires[i].len(), p.reqs[i].kind, got.len(), expected.len()));
        return;
    }
    if !client_stays && got.len() < expected.len() {
        exec::count(if p.half_close && p.c2s.cut.is_none() { "probe.tcp.unanswered_after_half_close" } else { "probe.tcp.unanswered_after_cut_or_reset" });
    } else if !client_stays {
        exec::count("probe.tcp.all_answered_although_client_left");
    }
}

pub fn def_c11() -> CheckDef {
    CheckDef { id: "C11", level: "exploration", parts: vec![Box::new(FrontPart), Box::new(ConnPart)] }
}

pub fn def_c03() -> CheckDef {
    CheckDef { id: "C03", level: "exploration", parts: vec![Box::new(SizesPart)] }
}
