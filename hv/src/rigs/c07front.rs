//! C07, part `server`: the same generated hierarchy and tampering faults as part `chain`, but the
//! validator is reached the way a client reaches it — through the real authoritative front
//! (`Catalog::handle_request`) with a real `ForwardZoneHandler<SimProvider>` whose `Resolver`
//! (cache → `DnssecDnsHandle` → `NameServerPool` → UDP/TCP client streams) talks over the
//! simulated network to one upstream node that plays the recursive resolver (it answers every
//! question from the real signed zone that is authoritative for it, after the fault layer).
//! Judged: the AD bit and the rcode the client sees (`build_forwarded_response`'s Secure → AD,
//! Bogus → SERVFAIL unless CD mapping).

use std::collections::BTreeMap;
use std::net::{IpAddr, Ipv4Addr, SocketAddr};
use std::sync::{Arc, Mutex};
use std::time::Duration;

use futures_util::stream::StreamExt;
use hickory_net::xfer::{BufDnsStreamHandle, DnsHandle, Protocol};
use hickory_proto::op::{DnsRequest, DnsRequestOptions, Edns, Message, Query, ResponseCode};
use hickory_proto::rr::{LowerName, Name, RData, Record, RecordType};
use hickory_resolver::config::{NameServerConfig, ResolverOpts};
use hickory_server::server::{Request, RequestHandler, ResponseHandle};
use hickory_server::store::forwarder::{ForwardConfig, ForwardZoneHandler};
use hickory_server::zone_handler::{Catalog, ZoneHandler};
use hsim::exec::{self, SimConfig};
use hsim::net::{self, ConnectVerdict, PipePlan, SimProvider, SimTime};
use hsim::rng::mix;
use hsim::supervisor::{Describe, Part, Report, Tier};
use hsim::Rng;
use serde::{Deserialize, Serialize};
use serde_json::Value;

use super::c07::{all_queries, apply_fault, build_world, fault_code, fault_name, gen_plan, genuine, n, zone_of_owner, Class, Plan};
use super::dnssec::{anchors_for, truth_of, Router};
use super::update::finish;

const MS: u64 = 1_000_000;
const UPSTREAM: Ipv4Addr = Ipv4Addr::new(10, 53, 0, 1);
const FORWARDER: Ipv4Addr = Ipv4Addr::new(10, 53, 0, 9);

#[derive(Serialize, Deserialize, Clone, Debug)]
struct ClientFlags {
    /// EDNS with DO
    dnssec_ok: bool,
    ad: bool,
    cd: bool,
}

#[derive(Serialize, Deserialize, Clone, Debug)]
struct FrontPlan {
    base: Plan,
    flags: Vec<ClientFlags>,
    /// 0 udp, 1 tcp, 2 both
    upstream_protocols: u8,
    /// the second round repeats the questions (answered from the resolver's cache)
    repeat: bool,
}

pub struct ServerPart;

/// one query handled by the upstream node: the genuine answer of the authoritative zone after the
/// fault layer, or nothing (dropped)
async fn serve(router: &Router, req_bytes: &[u8], udp: bool) -> Option<Vec<u8>> {
    let req = Message::from_vec(req_bytes).ok()?;
    let id = req.metadata.id;
    let advertised = req.edns.as_ref().map(|e| e.max_payload() as usize).unwrap_or(512).max(512);
    let resp = router.send(DnsRequest::new(req.clone(), DnsRequestOptions::default())).next().await?;
    let resp = resp.ok()?;
    let mut m: Message = resp.into_message();
    m.metadata.id = id;
    let bytes = m.to_vec().ok()?;
    if udp && bytes.len() > advertised {
        exec::count("probe.upstream_udp_truncated");
        let mut t = Message::response(id, req.metadata.op_code);
        t.metadata.truncation = true;
        t.metadata.recursion_desired = req.metadata.recursion_desired;
        t.metadata.recursion_available = true;
        for q in &req.queries {
            t.add_query(q.clone());
        }
        if req.edns.is_some() {
            let mut e = Edns::new();
            e.set_dnssec_ok(true);
            e.set_max_payload(1232);
            t.edns = Some(e);
        }
        return t.to_vec().ok();
    }
    Some(bytes)
}

async fn scenario(fp: FrontPlan) {
    let p = fp.base.clone();
    // (ECDSA signatures are randomised by ring's own entropy source: same behaviour, other bytes)
    net::log_payload_hash(false);
    let (world, anchor_keys) = build_world(&p);
    let mut truths = BTreeMap::new();
    for z in &world.zones {
        truths.insert(z.origin.to_lowercase().to_string(), truth_of(z).await);
    }
    let secure_zones: Vec<Name> = vec![Name::root(), n("tld."), n("leaf.tld.")];
    let world = Arc::new(world);
    let router = Router::new(world.clone());
    let qs = all_queries();
    let mut p = p;
    if !p.nsec3[2] {
        for q in p.queries.iter_mut() {
            if *q % qs.queries.len() == 4 {
                *q = 0;
            }
        }
    }
    let user_questions: Vec<Query> = p.queries.iter().map(|i| qs.queries[*i % qs.queries.len()].0.clone()).collect();
    let counters: Arc<Mutex<BTreeMap<Class, u8>>> = Arc::new(Mutex::new(BTreeMap::new()));
    let applied: Arc<Mutex<Vec<String>>> = Arc::new(Mutex::new(Vec::new()));
    {
        let faults = p.faults.clone();
        let world2 = world.clone();
        let counters = counters.clone();
        let applied = applied.clone();
        let uq = user_questions.clone();
        router.set_tamper(move |_nth, q, m| {
            let class = if q.query_type == RecordType::DNSKEY && !uq.contains(q) {
                Class::Dnskey
            } else if q.query_type == RecordType::DS && !uq.contains(q) {
                Class::Ds
            } else if q.query_type == RecordType::NS && !uq.contains(q) {
                Class::NsProbe
            } else {
                Class::Main
            };
            let k = {
                let mut c = counters.lock().unwrap();
                let e = c.entry(class).or_insert(0);
                let k = *e;
                *e = e.saturating_add(1);
                k
            };
            let mut cur = Some(m);
            let mut tampered = false;
            for f in faults.iter().filter(|f| f.class == class && (f.occurrence == 255 || f.occurrence == k) && (f.qname.is_empty() || q.name.to_lowercase().to_string() == f.qname)) {
                let Some(mm) = cur.clone() else { break };
                if let Some(res) = apply_fault(&world2, q, &mm, f.fault) {
                    applied.lock().unwrap().push(format!("{}@{:?}", fault_name(f.fault), class));
                    exec::count(&format!("fault.{}@{:?}", fault_name(f.fault), class));
                    tampered = true;
                    cur = res;
                }
            }
            (cur, tampered)
        });
    }

    // ---- the upstream node on the simulated network -------------------------------------------
    let up = SocketAddr::new(IpAddr::V4(UPSTREAM), 53);
    {
        let router_tcp = router.clone();
        let router = router.clone();
        net::udp_node(up, move |dg| {
            let router = router.clone();
            let dg = dg.clone();
            exec::spawn("upstream-udp", async move {
                if let Some(b) = serve(&router, &dg.bytes, true).await {
                    net::udp_send(up, dg.src, b);
                }
            });
            vec![]
        });
        let router = router_tcp;
        net::tcp_listen(up, move |mut tcp, _peer| {
            let router = router.clone();
            exec::spawn("upstream-tcp", async move {
                let mut hdr = [0u8; 2];
                loop {
                    if tcp.read_exact(&mut hdr).await.is_err() {
                        break;
                    }
                    let mut body = vec![0u8; u16::from_be_bytes(hdr) as usize];
                    if tcp.read_exact(&mut body).await.is_err() {
                        break;
                    }
                    let router = router.clone();
                    let mut w = tcp.dup();
                    exec::spawn("upstream-tcp-reply", async move {
                        if let Some(b) = serve(&router, &body, false).await {
                            let mut frame = (b.len() as u16).to_be_bytes().to_vec();
                            frame.extend_from_slice(&b);
                            let _ = w.write_all(&frame).await;
                        }
                    });
                }
                std::future::pending::<()>().await;
                drop(tcp);
            });
        });
        net::set_connect_policy(move |_c, _dst, _nth| ConnectVerdict::Accept { rtt_ns: MS, c2s: PipePlan { latency_ns: MS / 2, ..Default::default() }, s2c: PipePlan { latency_ns: MS / 2, ..Default::default() } });
    }

    // ---- the server: Catalog with a validating forwarder for the root -------------------------
    let mut ns = match fp.upstream_protocols {
        0 => NameServerConfig::udp(IpAddr::V4(UPSTREAM)),
        1 => NameServerConfig::tcp(IpAddr::V4(UPSTREAM)),
        _ => NameServerConfig::udp_and_tcp(IpAddr::V4(UPSTREAM)),
    };
    for c in ns.connections.iter_mut() {
        c.port = 53;
    }
    let mut opts = ResolverOpts::default();
    opts.timeout = Duration::from_secs(3);
    opts.attempts = 1;
    opts.case_randomization = false;
    opts.edns0 = true;
    let config = ForwardConfig { name_servers: vec![ns], options: Some(opts) };
    let handler = match ForwardZoneHandler::builder_with_config(config, SimProvider::new(IpAddr::V4(FORWARDER))).with_origin(Name::root()).with_trust_anchor(anchors_for(&anchor_keys)).build() {
        Ok(h) => h,
        Err(e) => {
            exec::violate("C07.harness", "", format!("forwarder: {e}"));
            return;
        }
    };
    let mut catalog = Catalog::new();
    catalog.upsert(LowerName::new(&Name::root()), vec![Arc::new(handler) as Arc<dyn ZoneHandler>]);
    let catalog = Arc::new(catalog);

    let ask = |q: Query, f: ClientFlags, id: u16| {
        let catalog = catalog.clone();
        async move {
            let mut m = Message::query();
            m.metadata.id = id;
            m.metadata.recursion_desired = true;
            m.metadata.authentic_data = f.ad;
            m.metadata.checking_disabled = f.cd;
            m.add_query(q);
            if f.dnssec_ok {
                let mut e = Edns::new();
                e.set_dnssec_ok(true);
                e.set_max_payload(4096);
                m.edns = Some(e);
            }
            let bytes = m.to_vec().ok()?;
            let src: SocketAddr = "10.9.9.9:5353".parse().unwrap();
            let req = Request::from_bytes(bytes, src, Protocol::Tcp).ok()?;
            let (handle, mut rx) = BufDnsStreamHandle::new(src);
            let rh = ResponseHandle::new(src, handle, Protocol::Tcp);
            catalog.handle_request::<_, SimTime>(&req, rh).await;
            match futures_util::FutureExt::now_or_never(rx.next()) {
                Some(Some(sm)) => Message::from_vec(&sm.into_parts().0).ok(),
                _ => None,
            }
        }
    };

    let rounds = if fp.repeat { 2 } else { 1 };
    let mut results: Vec<(usize, usize, Option<Message>)> = Vec::new();
    for round in 0..rounds {
        if p.concurrent {
            let mut joins = Vec::new();
            for (i, q) in user_questions.iter().enumerate() {
                let fut = ask(q.clone(), fp.flags[i % fp.flags.len()].clone(), 0x4000 + (round * 16 + i) as u16);
                joins.push((i, exec::spawn(&format!("client{i}"), fut)));
            }
            for (i, j) in joins {
                results.push((round, i, j.await));
            }
        } else {
            for (i, q) in user_questions.iter().enumerate() {
                let r = ask(q.clone(), fp.flags[i % fp.flags.len()].clone(), 0x4000 + (round * 16 + i) as u16).await;
                results.push((round, i, r));
            }
        }
        exec::sleep(Duration::from_millis(200)).await;
    }
    exec::count_n("probe.upstream_exchanges", router.count() as u64);
    let applied_now = applied.lock().unwrap().clone();
    let faulty = !applied_now.is_empty();
    let fault_shape = {
        let mut a = applied_now.clone();
        a.sort();
        a.dedup();
        if a.iter().any(|x| x == "ForgeNs@NsProbe") {
            "forged-zone-cut".to_string()
        } else {
            a.join("+")
        }
    };
    let nxs = format!("{}{}{}", if p.nsec3[0] { "3" } else { "n" }, if p.nsec3[1] { "3" } else { "n" }, if p.nsec3[2] { "3" } else { "n" });

    for (round, i, res) in results {
        let (query, expect) = &qs.queries[p.queries[i] % qs.queries.len()];
        let f = &fp.flags[i % fp.flags.len()];
        let qdesc = format!("{} {} (DO={} AD={} CD={} round {round})", query.name, query.query_type, f.dnssec_ok, f.ad, f.cd);
        let Some(resp) = res else {
            exec::violate("C07.front.no-response", "", format!("{qdesc}: the server sent no response"));
            return;
        };
        let rcode = resp.metadata.response_code;
        let ad = resp.metadata.authentic_data;
        if exec::tracing() {
            exec::log(&format!("client sees {qdesc}: rcode={rcode:?} ad={ad} an={:?} ns={:?}", resp.answers.iter().map(|r| format!("{} {}", r.name, r.record_type())).collect::<Vec<_>>(), resp.authorities.iter().map(|r| format!("{} {}", r.name, r.record_type())).collect::<Vec<_>>()));
        }
        exec::count(&format!("probe.front.rcode.{rcode:?}"));
        if ad {
            exec::count("probe.front.ad_set");
        }
        let in_secure_zone = |owner: &Name| secure_zones.contains(&zone_of_owner(&world, owner));
        let data: Vec<&Record> = resp.answers.iter().filter(|r| r.record_type() != RecordType::RRSIG).collect();
        // every answer record, grouped: is it the genuine RRset?
        let mut all_genuine = true;
        let mut all_in_secure = true;
        for rec in &data {
            let g = genuine(&world, &truths, &rec.name, rec.record_type());
            let returned: Vec<&RData> = data.iter().filter(|r| r.name.to_lowercase() == rec.name.to_lowercase() && r.record_type() == rec.record_type()).map(|r| &r.data).collect();
            let ok = match &g {
                Some(d) => d.len() == returned.len() && returned.iter().all(|x| d.contains(x)),
                None => false,
            };
            if !ok {
                all_genuine = false;
            }
            if !in_secure_zone(&rec.name) && rec.record_type() != RecordType::DS {
                all_in_secure = false;
            }
        }
        // (1) AD only for genuine data of securely chained zones
        if ad && !data.is_empty() && (!all_genuine || !all_in_secure) {
            let inv = if !all_genuine { "C07.front.ad-on-forged-data" } else { "C07.front.ad-without-chain" };
            if exec::violate(inv, &fault_shape, format!("{qdesc}: AD is set on {:?} (rcode {rcode:?}; faults {applied_now:?})", data.iter().map(|r| format!("{} {} {}", r.name, r.record_type(), r.data)).collect::<Vec<_>>())) {
                return;
            }
        }
        if ad && data.is_empty() && !matches!(*expect, "secure-nx" | "insecure-alias-nx") && rcode == ResponseCode::NXDomain {
            if exec::violate("C07.front.ad-on-false-denial", &fault_shape, format!("{qdesc}: AD is set on NXDOMAIN for a name that exists (faults {applied_now:?})")) {
                return;
            }
        }
        if ad && *expect == "insecure-alias-nx" {
            if exec::violate("C07.front.ad-through-insecure-alias", &fault_shape, format!("{qdesc}: AD is set on the negative answer reached through an unsigned CNAME (faults {applied_now:?})")) {
                return;
            }
        }
        if ad && !(f.ad || f.dnssec_ok) {
            if exec::violate("C07.front.ad-unrequested", "", format!("{qdesc}: AD set although the client signalled neither AD nor DO")) {
                return;
            }
        }
        // (2) CD=0: data of a securely chained zone that is not the genuine RRset is never served
        if !f.cd && rcode != ResponseCode::ServFail {
            for rec in &data {
                if !(in_secure_zone(&rec.name) || rec.record_type() == RecordType::DS) {
                    continue;
                }
                let g = genuine(&world, &truths, &rec.name, rec.record_type());
                // inherent to NSEC3 opt-out (RFC 5155 12.2, as in part `chain`): a name without a
                // node of its own in an opt-out zone can always be presented as an unsigned delegation
                let z = zone_of_owner(&world, &rec.name);
                let level = if z == n("leaf.tld.") { 2 } else if z == n("tld.") { 1 } else { 0 };
                let optout_zone = p.nsec3[level] && p.opt_out && level != 0;
                let node_exists = truths.get(&z.to_lowercase().to_string()).map(|t| t.rrsets.keys().any(|k| k.0 == rec.name.to_lowercase().to_string())).unwrap_or(false);
                if faulty && optout_zone && !node_exists {
                    exec::count("probe.optout_span_downgrade_inherent");
                    continue;
                }
                if g.as_ref().map(|d| !d.contains(&rec.data)).unwrap_or(true) {
                    if exec::violate("C07.front.forged-data-served", &fault_shape, format!("{qdesc}: CD=0 but the response (rcode {rcode:?}, AD={ad}) carries {} {} {} which is not in the genuine RRset {g:?} of a signed zone (faults {applied_now:?})", rec.name, rec.record_type(), rec.data)) {
                        return;
                    }
                }
            }
            if expect.starts_with("secure") && *expect != "secure-nx" && rcode == ResponseCode::NXDomain && faulty {
                if exec::violate("C07.front.false-denial-served", &fault_shape, format!("{qdesc}: CD=0 but NXDOMAIN is served for a name that exists in a signed zone (faults {applied_now:?})")) {
                    return;
                }
            }
        }
        // (3) completeness, fault-free: securely chained data is served with AD when asked for
        if !faulty {
            if expect.starts_with("secure") && *expect != "secure-nx" {
                if rcode != ResponseCode::NoError || data.is_empty() || !all_genuine {
                    if exec::violate("C07.front.genuine-not-served", &format!("fault-free:{nxs}:{}:{rcode:?}", query.query_type), format!("{qdesc}: fault-free, but rcode {rcode:?} with {} answer records", data.len())) {
                        return;
                    }
                } else if (f.ad || f.dnssec_ok) && !ad {
                    // The statement is an "only if": a missing AD is not a violation.  Observed: an
                    // RRset that carries two RRSIGs (zone signed with two keys) never gets AD with
                    // DO set, because only the RRSIG that verified is marked Secure.
                    exec::count("probe.front.genuine_served_without_ad");
                } else if ad {
                    exec::count("probe.front.genuine_served_with_ad");
                }
            }
            if *expect == "insecure" {
                if ad {
                    if exec::violate("C07.front.ad-without-chain", "fault-free", format!("{qdesc}: AD set for a zone without a chain of trust")) {
                        return;
                    }
                }
                if rcode != ResponseCode::NoError || data.is_empty() {
                    if exec::violate("C07.front.genuine-not-served", &format!("fault-free:{nxs}:insecure:{rcode:?}"), format!("{qdesc}: fault-free insecure data not served (rcode {rcode:?})")) {
                        return;
                    }
                }
            }
            if *expect == "secure-nx" && rcode == ResponseCode::NoError && !data.is_empty() {
                exec::violate("C07.harness", "", format!("{qdesc}: data for a name that does not exist"));
                return;
            }
        }
    }
}

fn gen_front(seed: u64) -> FrontPlan {
    let base = gen_plan(seed);
    let mut r = Rng::new(mix(seed ^ 0xF207));
    let flags = (0..3).map(|_| ClientFlags { dnssec_ok: r.chance(2, 3), ad: r.chance(1, 3), cd: r.chance(1, 4) }).collect();
    FrontPlan { base, flags, upstream_protocols: *r.pick(&[0u8, 0, 1, 2, 2]), repeat: r.chance(1, 3) }
}

impl Part for ServerPart {
    fn name(&self) -> &'static str {
        "server"
    }
    fn runs(&self, tier: Tier) -> u64 {
        match tier {
            Tier::Quick => 3_000,
            Tier::Thorough => 150_000,
        }
    }
    fn block(&self, _t: Tier) -> u64 {
        16
    }
    fn gen(&self, seed: u64, _tier: Tier) -> Value {
        serde_json::to_value(gen_front(seed)).unwrap()
    }
    fn run(&self, plan: &Value, trace: bool) -> Report {
        let mut fp: FrontPlan = serde_json::from_value(plan.clone()).expect("plan");
        fp.base.sim.trace = trace;
        fp.base.sim.step_budget = 4_000_000;
        let p = &fp.base;
        let mut sig = mix((p.nsec3[0] as u64) | (p.nsec3[1] as u64) << 1 | (p.nsec3[2] as u64) << 2 | (p.concurrent as u64) << 8 | (fp.upstream_protocols as u64) << 10 | (fp.repeat as u64) << 12);
        for (i, q) in p.queries.iter().enumerate() {
            let f = &fp.flags[i % fp.flags.len()];
            sig = mix(sig ^ (*q as u64 + 1) ^ (f.dnssec_ok as u64) << 8 ^ (f.ad as u64) << 9 ^ (f.cd as u64) << 10);
        }
        for f in &p.faults {
            sig = mix(sig ^ (f.class as u64) << 8 ^ fault_code(f.fault) ^ ((f.occurrence == 255) as u64) << 16);
        }
        let nontrivial = !p.faults.is_empty() || p.queries.len() > 1;
        let sim: SimConfig = fp.base.sim.clone();
        let out = exec::run(&sim, async move { scenario(fp).await });
        finish(out, sig, nontrivial, "C07.stall")
    }
    fn shrink(&self, plan: &Value) -> Vec<Value> {
        let Ok(fp) = serde_json::from_value::<FrontPlan>(plan.clone()) else { return vec![] };
        let mut out: Vec<FrontPlan> = Vec::new();
        for i in 0..fp.base.faults.len() {
            let mut q = fp.clone();
            q.base.faults.remove(i);
            out.push(q);
        }
        if fp.base.queries.len() > 1 {
            for i in 0..fp.base.queries.len() {
                let mut q = fp.clone();
                q.base.queries.remove(i);
                if i < q.flags.len() && q.flags.len() > 1 {
                    q.flags.remove(i);
                }
                out.push(q);
            }
        }
        if fp.repeat {
            let mut q = fp.clone();
            q.repeat = false;
            out.push(q);
        }
        if fp.base.concurrent {
            let mut q = fp.clone();
            q.base.concurrent = false;
            out.push(q);
        }
        if fp.upstream_protocols != 0 {
            let mut q = fp.clone();
            q.upstream_protocols = 0;
            out.push(q);
        }
        out.into_iter().map(|q| serde_json::to_value(q).unwrap()).collect()
    }
    fn describe(&self) -> Describe {
        Describe {
            rule: "plan = part `chain`'s plan (hierarchy options, 1-3 questions, 0-3 tampering faults addressed to classes of upstream exchange) + per-question client flags (DO, AD, CD), upstream transport (UDP with truncation to TCP / TCP / both), optional second round answered from the resolver cache; non-trivial = any fault or several questions; distinct by (hierarchy options, questions x flags, faults, transport, repeat)".into(),
            real: vec!["Catalog::handle_request -> lookup -> build_forwarded_response (Secure -> AD, Bogus -> SERVFAIL unless CD)", "ForwardZoneHandler<SimProvider> -> Resolver (response cache) -> DnssecDnsHandle -> NameServerPool / NameServer -> UdpClientStream / TcpClientStream + DnsMultiplexer over the simulated network", "authoritative side as in part `chain`"],
            stub: vec!["upstream node (plays the recursive resolver the forwarder points at): picks the authoritative zone per question, applies the fault layer, truncates over UDP", "client (request bytes handed to Catalog::handle_request)"],
            assumptions: vec!["ground truth = the generated zones; the attacker holds no zone key", "the client is handed to Catalog::handle_request directly (the socket loops in front of it are C11's subject)"],
        }
    }
}
