//! C16 — only the queried server's matching reply completes a query.
//!
//! part `udp`:    real `UdpClientStream<SimProvider>` (optionally behind `DnsExchange`) against an
//!                omniscient forger that produces near-miss datagrams.
//! part `stream`: real `TcpClientStream` + `DnsMultiplexer` + `DnsExchange` (built by
//!                `TcpClientStream::exchange`) with k concurrent requests against a scripted peer
//!                that reorders, duplicates, invents ids, stays silent and closes.

use std::cell::RefCell;
use std::collections::BTreeMap;
use std::net::{IpAddr, Ipv4Addr, SocketAddr};
use std::rc::Rc;
use std::time::Duration;

use futures_util::stream::StreamExt;
use hickory_net::runtime::RuntimeProvider;
use hickory_net::tcp::TcpClientStream;
use hickory_net::udp::UdpClientStream;
use hickory_net::xfer::{DnsHandle, DnsRequestSender};
use hickory_net::NetError;
use hickory_proto::op::{DnsRequest, DnsRequestOptions, Message, OpCode, Query};
use hickory_proto::rr::rdata::A;
use hickory_proto::rr::{Name, RData, Record, RecordType};
use hsim::exec::{self, SimConfig};
use hsim::net::{self, ConnectVerdict, PipePlan, SimProvider, SimTcp, UdpOut, MS, SEC};
use hsim::rng::mix;
use hsim::supervisor::{CheckDef, Describe, Part, Report, Tier};
use hsim::{End, Rng};
use serde::{Deserialize, Serialize};
use serde_json::Value;

const CLIENT: IpAddr = IpAddr::V4(Ipv4Addr::new(10, 0, 0, 1));
const SERVER: SocketAddr = SocketAddr::new(IpAddr::V4(Ipv4Addr::new(10, 0, 0, 53)), 53);
const ATTACKER: IpAddr = IpAddr::V4(Ipv4Addr::new(10, 0, 0, 66));

fn marker_record(name: &Name, marker: u32) -> Record {
    Record::from_rdata(name.clone(), 60, RData::A(A(Ipv4Addr::from(marker))))
}

fn marker_of(msg: &Message) -> Option<u32> {
    msg.answers.iter().find_map(|r| match &r.data {
        RData::A(a) => Some(u32::from(a.0)),
        _ => None,
    })
}

fn finish<T>(out: hsim::RunOut<T>, sig: u64, nontrivial: bool, stall_inv: &str) -> Report {
    let mut rep = Report {
        violation: out.violation.clone(),
        counters: out.counters,
        sig,
        nontrivial,
        log_hash: out.log_hash,
        ilog_hash: out.ilog_hash,
        sim_ns: out.sim_ns,
        steps: out.steps,
        trace: out.trace,
    };
    if rep.violation.is_none() && out.end != End::Completed {
        rep.violation = Some(hsim::Violation { invariant: stall_inv.into(), shape: String::new(), detail: format!("run ended {:?} after {} steps / {} ns", out.end, out.steps, out.sim_ns) });
    }
    rep
}

// ==========================================================================================
// UDP part

#[derive(Serialize, Deserialize, Clone, Copy, Debug, PartialEq, Eq, PartialOrd, Ord)]
enum Kind {
    Genuine,
    WrongIp,
    WrongPort,
    WrongId,
    WrongName,
    WrongType,
    ExtraQuestion,
    CaseFlip,
    NoQuestion,
    Garbage,
    Short,
}

#[derive(Serialize, Deserialize, Clone, Debug)]
struct Inject {
    /// transmission (0-based) that triggers it
    tx: usize,
    delay_us: u64,
    kind: Kind,
}

#[derive(Serialize, Deserialize, Clone, Debug)]
struct UdpPlan {
    sim: SimConfig,
    name: String,
    case_rand: bool,
    timeout_ms: u64,
    retry_ms: u64,
    max_retries: u8,
    via_exchange: bool,
    use_edns: bool,
    fault_free: bool,
    injects: Vec<Inject>,
    /// the request is built by the caller (`DnsRequest::new` over a message that already carries
    /// the mixed-case question) instead of `DnsRequest::from_query`
    #[serde(default)]
    prebuilt: bool,
}

fn flip_one_case(name: &Name, which: usize) -> Option<Name> {
    let mut labels: Vec<Vec<u8>> = name.iter().map(|l| l.to_vec()).collect();
    let mut letters = Vec::new();
    for (li, l) in labels.iter().enumerate() {
        for (bi, b) in l.iter().enumerate() {
            if b.is_ascii_alphabetic() {
                letters.push((li, bi));
            }
        }
    }
    if letters.is_empty() {
        return None;
    }
    let (li, bi) = letters[which % letters.len()];
    labels[li][bi] ^= 0x20;
    let mut n = Name::from_labels(labels).ok()?;
    n.set_fqdn(true);
    Some(n)
}

fn forge(kind: Kind, req: &Message, marker: u32, salt: u64) -> (Vec<u8>, SocketAddr) {
    let q = req.queries.first().cloned().unwrap_or_else(|| Query::new(Name::root(), RecordType::A));
    let mut m = Message::response(req.metadata.id, OpCode::Query);
    m.metadata.recursion_desired = req.metadata.recursion_desired;
    m.metadata.recursion_available = true;
    let mut from = SERVER;
    let mut qs = vec![q.clone()];
    match kind {
        Kind::Genuine => {}
        Kind::WrongIp => from = SocketAddr::new(ATTACKER, 53),
        Kind::WrongPort => from = SocketAddr::new(SERVER.ip(), if salt % 2 == 0 { 54 } else { 5353 }),
        Kind::WrongId => m.metadata.id = req.metadata.id.wrapping_add(1 + (salt % 65534) as u16),
        Kind::WrongName => {
            let other = Name::from_ascii("evil.example.").unwrap();
            qs = vec![Query::new(other, q.query_type)];
        }
        Kind::WrongType => {
            let t = if q.query_type == RecordType::A { RecordType::AAAA } else { RecordType::A };
            qs = vec![Query::new(q.name.clone(), t)];
        }
        Kind::ExtraQuestion => qs.push(Query::new(Name::from_ascii("extra.example.").unwrap(), RecordType::A)),
        Kind::CaseFlip => {
            if let Some(n) = flip_one_case(&q.name, salt as usize) {
                let mut q2 = q.clone();
                q2.name = n;
                qs = vec![q2];
            }
        }
        Kind::NoQuestion => qs.clear(),
        Kind::Garbage => {
            let mut r = Rng::new(salt);
            let n = 12 + r.usize_below(40);
            let mut b = r.bytes(n);
            // right id, so that only the body is garbage
            b[0..2].copy_from_slice(&req.metadata.id.to_be_bytes());
            // claims a huge answer count: undecodable
            b[6] = 0xff;
            b[7] = 0xff;
            return (b, from);
        }
        Kind::Short => {
            let mut b = req.metadata.id.to_be_bytes().to_vec();
            b.extend_from_slice(&Rng::new(salt).bytes(salt as usize % 10));
            return (b, from);
        }
    }
    for qq in &qs {
        m.add_query(qq.clone());
    }
    m.add_answer(marker_record(&q.name, marker));
    (m.to_vec().expect("encode forged"), from)
}

pub struct Udp;

impl Part for Udp {
    fn name(&self) -> &'static str {
        "udp"
    }
    fn runs(&self, tier: Tier) -> u64 {
        match tier {
            Tier::Quick => 14_000,
            Tier::Thorough => 600_000,
        }
    }
    fn block(&self, _t: Tier) -> u64 {
        64
    }
    fn gen(&self, seed: u64, _tier: Tier) -> Value {
        let mut r = Rng::new(seed);
        let mut sim = SimConfig::from_seed(seed);
        sim.step_budget = 200_000;
        let labels = 1 + r.usize_below(3);
        let mut name = String::new();
        for _ in 0..labels {
            let n = 1 + r.usize_below(8);
            for _ in 0..n {
                let c = b"abcdefghijklmnopqrstuvwxyzABCDEFGHIJKLMNOPQRSTUVWXYZ0123456789"[r.usize_below(62)];
                name.push(c as char);
            }
            name.push('.');
        }
        let fault_free = r.chance(1, 5);
        let timeout_ms = *r.pick(&[300u64, 1000, 2000, 5000]);
        let retry_ms = *r.pick(&[50u64, 100, 250, 1000]);
        let max_retries = r.below(4) as u8;
        let mut injects = Vec::new();
        if fault_free {
            let ntx = 1 + r.usize_below(2);
            for tx in 0..ntx {
                injects.push(Inject { tx, delay_us: r.below(retry_ms.min(timeout_ms) * 400), kind: Kind::Genuine });
            }
        } else {
            let n = r.usize_below(9);
            let kinds = [Kind::Genuine, Kind::WrongIp, Kind::WrongPort, Kind::WrongId, Kind::WrongName, Kind::WrongType, Kind::ExtraQuestion, Kind::CaseFlip, Kind::NoQuestion, Kind::Garbage, Kind::Short];
            // swarm: a random subset of kinds is enabled per run
            let enabled: Vec<Kind> = kinds.iter().copied().filter(|_| r.chance(1, 2)).collect();
            for _ in 0..n {
                if enabled.is_empty() {
                    break;
                }
                let kind = *r.pick(&enabled);
                injects.push(Inject { tx: r.usize_below(max_retries.max(1) as usize), delay_us: if r.chance(1, 3) { 0 } else { r.below(retry_ms * 1500) }, kind });
            }
            if r.chance(3, 4) {
                injects.push(Inject { tx: r.usize_below(max_retries.max(1) as usize), delay_us: r.below(retry_ms * 1200), kind: Kind::Genuine });
            }
        }
        let p = UdpPlan { sim, name, case_rand: r.bool(), timeout_ms, retry_ms, max_retries, via_exchange: r.chance(1, 3), use_edns: r.bool(), fault_free, injects, prebuilt: r.chance(1, 4) };
        serde_json::to_value(p).unwrap()
    }

    fn run(&self, plan: &Value, trace: bool) -> Report {
        let mut p: UdpPlan = serde_json::from_value(plan.clone()).expect("plan");
        p.sim.trace = trace;
        if p.fault_free {
            p.injects.retain(|i| i.kind == Kind::Genuine);
        }
        let mut kinds: Vec<Kind> = p.injects.iter().map(|i| i.kind).collect();
        kinds.sort();
        kinds.dedup();
        let mut sig = mix(p.case_rand as u64 ^ (p.via_exchange as u64) << 1 ^ (p.max_retries as u64) << 2 ^ (p.fault_free as u64) << 8 ^ (p.prebuilt as u64) << 9);
        for k in &kinds {
            sig = mix(sig ^ (*k as u64 + 1));
        }
        sig = mix(sig ^ p.injects.len() as u64);
        let nontrivial = p.injects.iter().any(|i| i.kind != Kind::Genuine) || p.injects.len() != 1;
        let p2 = p.clone();
        let out = exec::run(&p.sim, async move { udp_scenario(p2).await });
        finish(out, sig, nontrivial, "C16.udp.stall")
    }

    fn shrink(&self, plan: &Value) -> Vec<Value> {
        let p: UdpPlan = match serde_json::from_value(plan.clone()) {
            Ok(p) => p,
            Err(_) => return vec![],
        };
        let mut out = Vec::new();
        for i in 0..p.injects.len() {
            let mut q = p.clone();
            q.injects.remove(i);
            out.push(q);
        }
        for i in 0..p.injects.len() {
            if p.injects[i].delay_us != 0 {
                let mut q = p.clone();
                q.injects[i].delay_us = 0;
                out.push(q);
            }
            if p.injects[i].tx != 0 {
                let mut q = p.clone();
                q.injects[i].tx = 0;
                out.push(q);
            }
        }
        if p.via_exchange {
            let mut q = p.clone();
            q.via_exchange = false;
            out.push(q);
        }
        if p.max_retries > 1 {
            let mut q = p.clone();
            q.max_retries = 1;
            out.push(q);
        }
        if p.use_edns {
            let mut q = p.clone();
            q.use_edns = false;
            out.push(q);
        }
        if p.name.len() > 2 {
            let mut q = p.clone();
            q.name = "aB.".into();
            out.push(q);
        }
        if p.sim.policy != hsim::SchedPolicy::Fifo {
            let mut q = p.clone();
            q.sim.policy = hsim::SchedPolicy::Fifo;
            out.push(q);
        }
        out.into_iter().map(|q| serde_json::to_value(q).unwrap()).collect()
    }

    fn describe(&self) -> Describe {
        Describe {
            rule: "plan = (mixed-case query name, 0x20 on/off, timeout, retry interval, max retries, direct or via DnsExchange, list of <=9 datagrams injected relative to each (re)transmission with kind in {genuine, wrong source ip, wrong source port, wrong id, wrong name, wrong type, extra question, one letter case-flipped, empty question, undecodable, short}); non-trivial = at least one near-miss or several genuine copies; distinct by (set of kinds, count, 0x20, exchange, retries, fault-free)".into(),
            real: vec!["hickory_net::udp::UdpClientStream (UdpRequest::send receive loop, retry)", "hickory_net::udp::NextRandomUdpSocket", "hickory_net::xfer::DnsExchange + DnsExchangeBackground", "hickory_proto DnsRequest/Message codecs"],
            stub: vec!["SimUdpSocket / SimNet", "scripted omniscient forger node"],
            assumptions: vec!["the forger gets exactly one attribute wrong per datagram (a forger that spoofs source address, port and id correctly is outside what DNS-over-UDP defends)"],
        }
    }
}

async fn udp_scenario(p: UdpPlan) {
    net::configure(MS / 2, MS / 2);
    // transmissions seen by the server: (client socket, request)
    let txs: Rc<RefCell<Vec<(SocketAddr, Message)>>> = Rc::new(RefCell::new(Vec::new()));
    // marker -> (kind, tx, id used)
    let minted: Rc<RefCell<Vec<(Kind, usize, u16)>>> = Rc::new(RefCell::new(Vec::new()));
    {
        let txs = txs.clone();
        let minted = minted.clone();
        let injects = p.injects.clone();
        net::udp_node(SERVER, move |dg| {
            let Ok(req) = Message::from_vec(&dg.bytes) else {
                exec::violate("C16.harness", "", "server could not parse the client's query".into());
                return vec![];
            };
            let tx = txs.borrow().len();
            txs.borrow_mut().push((dg.src, req.clone()));
            exec::count("probe.transmissions");
            let mut outs = Vec::new();
            for inj in injects.iter().filter(|i| i.tx == tx) {
                let marker = minted.borrow().len() as u32 + 1;
                let mut inj = inj.clone();
                // a name without letters has no case to flip: that datagram is simply genuine
                if inj.kind == Kind::CaseFlip && req.queries.first().and_then(|q| flip_one_case(&q.name, 0)).is_none() {
                    inj.kind = Kind::Genuine;
                }
                let (bytes, from) = forge(inj.kind, &req, marker, mix(marker as u64 ^ 0x5151));
                let id = if bytes.len() >= 2 { u16::from_be_bytes([bytes[0], bytes[1]]) } else { 0 };
                minted.borrow_mut().push((inj.kind, tx, id));
                exec::count(&format!("fault.forged.{:?}", inj.kind));
                // forged datagrams are put on the wire directly (the attacker is a node fault)
                net::udp_inject(from, dg.src, bytes, inj.delay_us * 1000 + MS / 2);
                let _ = &mut outs;
            }
            outs as Vec<UdpOut>
        });
    }
    let provider = SimProvider::new(CLIENT);
    let name = Name::from_ascii(&p.name).expect("name");
    let query = Query::new(name, RecordType::A);
    let mut opts = DnsRequestOptions::default();
    opts.case_randomization = p.case_rand;
    opts.use_edns = p.use_edns;
    opts.retry_interval = Duration::from_millis(p.retry_ms);
    let request = if p.prebuilt {
        let mut m = hickory_proto::op::Message::query();
        m.add_query(query.clone());
        m.metadata.recursion_desired = opts.recursion_desired;
        if opts.use_edns {
            m.edns.get_or_insert_with(Default::default).set_max_payload(opts.edns_payload_len);
        }
        exec::count("probe.prebuilt_request");
        DnsRequest::new(m, opts)
    } else {
        DnsRequest::from_query(query.clone(), opts)
    };
    let builder = UdpClientStream::builder(SERVER, provider.clone())
        .with_timeout(Some(Duration::from_millis(p.timeout_ms)))
        .with_max_retries(p.max_retries)
        .with_retry_interval_floor(p.retry_ms);
    let t0 = exec::now_ns();
    let result: Option<Result<hickory_proto::op::DnsResponse, NetError>> = if p.via_exchange {
        let ex = builder.exchange();
        ex.send(request).next().await
    } else {
        let mut s = builder.build();
        s.send_message(request).next().await
    };
    let elapsed = exec::now_ns() - t0;
    // (a) deadline
    if elapsed > p.timeout_ms * MS + MS {
        exec::violate("C16.udp.deadline", "", format!("query resolved after {} ms with timeout {} ms", elapsed / MS, p.timeout_ms));
        return;
    }
    // (b) what was accepted
    match &result {
        Some(Ok(resp)) => {
            exec::count("probe.udp_ok");
            let Some(marker) = marker_of(resp) else {
                exec::violate("C16.udp.accept", "no-marker", "query completed with a message nobody sent".into());
                return;
            };
            let minted = minted.borrow();
            let Some((kind, tx, _)) = minted.get(marker as usize - 1).copied() else {
                exec::violate("C16.udp.accept", "unknown-marker", format!("marker {marker} was never minted"));
                return;
            };
            let acceptable = match kind {
                Kind::Genuine | Kind::NoQuestion => true,
                Kind::CaseFlip => !p.case_rand,
                _ => false,
            };
            if !acceptable {
                exec::violate("C16.udp.accept", &format!("{kind:?}"), format!("query completed with the {kind:?} datagram (marker {marker}, minted for transmission {tx}); 0x20={}", p.case_rand));
                return;
            }
            if kind == Kind::CaseFlip {
                exec::count("probe.caseflip_accepted_0x20_off");
            }
            // the caller must see its own question back
            if resp.queries.len() == 1 && (resp.queries[0] != query) {
                exec::violate("C16.udp.accept", "question", format!("returned question {:?} differs from asked {:?}", resp.queries[0], query));
                return;
            }
        }
        Some(Err(e)) => {
            exec::count("probe.udp_err");
            if matches!(e, NetError::QueryCaseMismatch) {
                exec::count("probe.case_mismatch_error");
            }
            if matches!(e, NetError::Timeout) {
                exec::count("probe.timeout_error");
            }
            if p.fault_free {
                exec::violate("C16.udp.complete", "", format!("fault-free run (genuine reply in time, nothing forged) ended with error: {e}"));
                return;
            }
        }
        None => {
            if p.fault_free {
                exec::violate("C16.udp.complete", "none", "fault-free run ended without a response".into());
                return;
            }
        }
    }
    // (c) at most three datagrams examined per transmission (= per socket)
    for (addr, recvs) in net::udp_bind_log() {
        if recvs > 3 {
            exec::violate("C16.udp.cap", "", format!("socket {addr} examined {recvs} datagrams"));
            return;
        }
        if recvs == 3 {
            exec::count("probe.cap_reached");
        }
    }
    // (d) transmissions bounded by max_retries (at least one is always made)
    let ntx = txs.borrow().len();
    if ntx > (p.max_retries.max(1)) as usize {
        exec::violate("C16.udp.retries", "", format!("{ntx} transmissions with max_retries={}", p.max_retries));
    }
    if ntx > 1 {
        exec::count("probe.retransmitted");
    }
}

// ==========================================================================================
// stream part

#[derive(Serialize, Deserialize, Clone, Copy, Debug, PartialEq, Eq, PartialOrd, Ord)]
enum RKind {
    Answer,
    /// a second copy of the answer (fresh marker, same id)
    Duplicate,
    /// a response with an id no outstanding request holds
    UnknownId,
    /// undecodable frame
    Garbage,
}

#[derive(Serialize, Deserialize, Clone, Debug)]
struct Reply {
    /// triggered by the arrival of the q-th query at the peer
    q: usize,
    delay_us: u64,
    kind: RKind,
}

#[derive(Serialize, Deserialize, Clone, Debug)]
struct StreamPlan {
    sim: SimConfig,
    k: usize,
    start_us: Vec<u64>,
    max_active: usize,
    timeout_ms: u64,
    replies: Vec<Reply>,
    /// peer closes (EOF) or resets after this many queries arrived, `close_delay_us` later
    close_after: Option<(usize, u64, bool)>,
    c2s: PipePlan,
    s2c: PipePlan,
    fault_free: bool,
}

pub struct StreamPart;

fn small_sizes(r: &mut Rng) -> Vec<usize> {
    let n = r.usize_below(30);
    (0..n).map(|_| if r.chance(1, 3) { 1 + r.usize_below(3) } else { 1 + r.usize_below(64) }).collect()
}

impl Part for StreamPart {
    fn name(&self) -> &'static str {
        "stream"
    }
    fn runs(&self, tier: Tier) -> u64 {
        match tier {
            Tier::Quick => 14_000,
            Tier::Thorough => 600_000,
        }
    }
    fn block(&self, _t: Tier) -> u64 {
        64
    }
    fn gen(&self, seed: u64, _tier: Tier) -> Value {
        let mut r = Rng::new(seed);
        let mut sim = SimConfig::from_seed(seed);
        sim.step_budget = 400_000;
        let fault_free = r.chance(1, 5);
        let k = if r.chance(1, 8) { 8 + r.usize_below(25) } else { 1 + r.usize_below(6) };
        let burst = r.bool();
        let start_us = (0..k).map(|_| if burst { 0 } else { r.below(20_000) }).collect();
        let max_active = if fault_free { 64 } else { *r.pick(&[1usize, 2, 32, 32]) };
        let timeout_ms = *r.pick(&[500u64, 2000, 5000]);
        let mut replies = Vec::new();
        for q in 0..k {
            if fault_free {
                replies.push(Reply { q, delay_us: r.below(50_000), kind: RKind::Answer });
                continue;
            }
            if r.chance(4, 5) {
                replies.push(Reply { q, delay_us: r.below(100_000), kind: RKind::Answer });
            }
            if r.chance(1, 4) {
                replies.push(Reply { q, delay_us: r.below(100_000), kind: RKind::Duplicate });
            }
            if r.chance(1, 4) {
                replies.push(Reply { q, delay_us: r.below(100_000), kind: RKind::UnknownId });
            }
            if r.chance(1, 10) {
                replies.push(Reply { q, delay_us: r.below(100_000), kind: RKind::Garbage });
            }
        }
        let close_after = if !fault_free && r.chance(1, 3) { Some((r.usize_below(k + 1), r.below(60_000), r.bool())) } else { None };
        let lat = MS / 4 + r.below(2 * MS);
        let c2s = PipePlan { write_sizes: small_sizes(&mut r), read_sizes: small_sizes(&mut r), latency_ns: lat, ..Default::default() };
        let s2c = PipePlan { write_sizes: small_sizes(&mut r), read_sizes: small_sizes(&mut r), latency_ns: lat, ..Default::default() };
        serde_json::to_value(StreamPlan { sim, k, start_us, max_active, timeout_ms, replies, close_after, c2s, s2c, fault_free }).unwrap()
    }

    fn run(&self, plan: &Value, trace: bool) -> Report {
        let mut p: StreamPlan = serde_json::from_value(plan.clone()).expect("plan");
        p.sim.trace = trace;
        p.start_us.resize(p.k, 0);
        let mut kinds: Vec<RKind> = p.replies.iter().map(|x| x.kind).collect();
        kinds.sort();
        kinds.dedup();
        let mut sig = mix(p.k as u64 ^ (p.max_active as u64) << 8 ^ (p.close_after.map(|c| 1 + c.0 as u64 + ((c.2 as u64) << 6)).unwrap_or(0)) << 16 ^ (p.fault_free as u64) << 40);
        for kd in &kinds {
            sig = mix(sig ^ (*kd as u64 + 1));
        }
        // order of replies relative to query order
        let mut order: Vec<(u64, usize)> = p.replies.iter().filter(|x| x.kind == RKind::Answer).map(|x| (x.delay_us / 10_000, x.q)).collect();
        order.sort();
        let inversions = order.windows(2).filter(|w| w[0].1 > w[1].1).count();
        sig = mix(sig ^ (inversions.min(3) as u64) << 50);
        let nontrivial = p.k > 1 || p.replies.iter().any(|x| x.kind != RKind::Answer) || p.close_after.is_some();
        let p2 = p.clone();
        let out = exec::run(&p.sim, async move { stream_scenario(p2).await });
        finish(out, sig, nontrivial, "C16.stream.stall")
    }

    fn shrink(&self, plan: &Value) -> Vec<Value> {
        let p: StreamPlan = match serde_json::from_value(plan.clone()) {
            Ok(p) => p,
            Err(_) => return vec![],
        };
        let mut out = Vec::new();
        if p.k > 1 {
            let mut q = p.clone();
            q.k -= 1;
            q.start_us.truncate(q.k);
            q.replies.retain(|x| x.q < q.k);
            if let Some(c) = &mut q.close_after {
                c.0 = c.0.min(q.k);
            }
            out.push(q);
        }
        for i in 0..p.replies.len() {
            let mut q = p.clone();
            q.replies.remove(i);
            out.push(q);
        }
        if p.close_after.is_some() {
            let mut q = p.clone();
            q.close_after = None;
            out.push(q);
        }
        for (which, get) in [(0, &p.c2s), (1, &p.s2c)] {
            if !get.write_sizes.is_empty() || !get.read_sizes.is_empty() {
                let mut q = p.clone();
                let pp = if which == 0 { &mut q.c2s } else { &mut q.s2c };
                pp.write_sizes.clear();
                pp.read_sizes.clear();
                out.push(q);
            }
        }
        if p.start_us.iter().any(|x| *x != 0) {
            let mut q = p.clone();
            q.start_us.iter_mut().for_each(|x| *x = 0);
            out.push(q);
        }
        for i in 0..p.replies.len() {
            if p.replies[i].delay_us != 0 {
                let mut q = p.clone();
                q.replies[i].delay_us = 0;
                out.push(q);
            }
        }
        if p.sim.policy != hsim::SchedPolicy::Fifo {
            let mut q = p.clone();
            q.sim.policy = hsim::SchedPolicy::Fifo;
            out.push(q);
        }
        out.into_iter().map(|q| serde_json::to_value(q).unwrap()).collect()
    }

    fn describe(&self) -> Describe {
        Describe {
            rule: "plan = (k<=32 concurrent requests with start offsets, max_active_requests in {1,2,32}, request timeout, per-query list of peer replies {answer, duplicate, unknown id, undecodable} with delays (=> any delivery order), optional peer close/reset after n queries, chunk plans for both byte directions, scheduler); non-trivial = k>1 or any non-answer reply or a close; distinct by (k, max_active, reply kinds, reply-order inversions, close point/kind)".into(),
            real: vec!["hickory_net::xfer::DnsMultiplexer (id allocation, routing, drop_cancelled, close_all)", "hickory_net::tcp::TcpClientStream / TcpStream framing", "hickory_net::xfer::DnsExchange + background", "SimProvider::connect_tcp path of TcpClientStream::exchange"],
            stub: vec!["SimTcp byte pipes", "scripted peer (framing by the harness)"],
            assumptions: vec!["id collisions between simultaneously outstanding requests are only reached by chance (about 0.8% of the runs with 32 requests in flight); entropy comes from the interposed getrandom"],
        }
    }
}

#[derive(Default)]
struct PeerLog {
    /// arrival order: (wire id, question name)
    queries: Vec<(u16, String)>,
    /// marker -> id it was sent with
    minted: Vec<(u16, RKind, usize)>,
    closed_at: Option<u64>,
}

async fn send_frame(mut w: SimTcp, lock: Rc<std::cell::Cell<bool>>, delay_ns: u64, frame: Vec<u8>) {
    exec::sleep_ns(delay_ns).await;
    while lock.get() {
        exec::yield_now().await;
    }
    lock.set(true);
    let _ = w.write_all(&frame).await;
    lock.set(false);
}

async fn close_later(mut w: SimTcp, delay_ns: u64, reset: bool, log: Rc<RefCell<PeerLog>>) {
    exec::sleep_ns(delay_ns).await;
    log.borrow_mut().closed_at = Some(exec::now_ns());
    exec::count(if reset { "fault.peer_reset" } else { "fault.peer_close" });
    if reset {
        w.reset();
    } else {
        w.shutdown_write();
    }
}

async fn peer_conn(mut tcp: SimTcp, p: StreamPlan, log: Rc<RefCell<PeerLog>>) {
    let lock = Rc::new(std::cell::Cell::new(false));
    let mut hdr = [0u8; 2];
    let mut closing = false;
    if let Some((0, d, reset)) = p.close_after {
        closing = true;
        exec::spawn("peer-close", close_later(tcp.dup(), d * 1000, reset, log.clone()));
    }
    loop {
        if tcp.read_exact(&mut hdr).await.is_err() {
            break;
        }
        let len = u16::from_be_bytes(hdr) as usize;
        let mut body = vec![0u8; len];
        if tcp.read_exact(&mut body).await.is_err() {
            break;
        }
        let Ok(req) = Message::from_vec(&body) else {
            exec::violate("C16.harness", "", "peer could not parse query".into());
            return;
        };
        let qix = log.borrow().queries.len();
        let qname = req.queries.first().map(|q| q.name.to_ascii()).unwrap_or_default();
        log.borrow_mut().queries.push((req.metadata.id, qname));
        exec::log(&format!("peer got query #{qix} id={}", req.metadata.id));
        for rp in p.replies.iter().filter(|r| r.q == qix) {
            let marker = log.borrow().minted.len() as u32 + 1;
            let mut id = req.metadata.id;
            let bytes = match rp.kind {
                RKind::Garbage => {
                    exec::count("fault.peer_garbage");
                    let mut b = Rng::new(marker as u64).bytes(20);
                    b[0..2].copy_from_slice(&id.to_be_bytes());
                    b[4] = 0xff;
                    b[6] = 0xff;
                    b
                }
                _ => {
                    if rp.kind == RKind::UnknownId {
                        exec::count("fault.peer_unknown_id");
                        // an id that no query seen so far uses
                        let used: Vec<u16> = log.borrow().queries.iter().map(|q| q.0).collect();
                        let mut c = id.wrapping_add(0x4000);
                        while used.contains(&c) {
                            c = c.wrapping_add(1);
                        }
                        id = c;
                    }
                    if rp.kind == RKind::Duplicate {
                        exec::count("fault.peer_duplicate");
                    }
                    let mut m = Message::response(id, OpCode::Query);
                    if let Some(q) = req.queries.first() {
                        m.add_query(q.clone());
                        m.add_answer(marker_record(&q.name, marker));
                    }
                    m.to_vec().expect("encode")
                }
            };
            log.borrow_mut().minted.push((id, rp.kind, qix));
            let mut frame = (bytes.len() as u16).to_be_bytes().to_vec();
            frame.extend_from_slice(&bytes);
            exec::spawn("peer-reply", send_frame(tcp.dup(), lock.clone(), rp.delay_us * 1000, frame));
        }
        if let Some((n, d, reset)) = p.close_after {
            if n == qix + 1 && !closing {
                closing = true;
                exec::spawn("peer-close", close_later(tcp.dup(), d * 1000, reset, log.clone()));
            }
        }
    }
    // keep our end open (unless the plan closed it): the client decides when the connection ends
    std::future::pending::<()>().await;
    drop(tcp);
}

async fn stream_scenario(p: StreamPlan) {
    net::configure(MS / 2, 0);
    let log: Rc<RefCell<PeerLog>> = Rc::new(RefCell::new(PeerLog::default()));
    {
        let (c2s, s2c) = (p.c2s.clone(), p.s2c.clone());
        net::set_connect_policy(move |_, _, _| ConnectVerdict::Accept { rtt_ns: MS, c2s: c2s.clone(), s2c: s2c.clone() });
        let p2 = p.clone();
        let log2 = log.clone();
        net::tcp_listen(SERVER, move |tcp, _peer| {
            let p3 = p2.clone();
            let l3 = log2.clone();
            exec::spawn("peer", peer_conn(tcp, p3, l3));
        });
    }
    let provider = SimProvider::new(CLIENT);
    let _ = provider.create_handle();
    let ex = match TcpClientStream::exchange(SERVER, None, Duration::from_secs(2), Duration::from_millis(p.timeout_ms), Some(p.max_active), provider).await {
        Ok(ex) => ex,
        Err(e) => {
            exec::violate("C16.harness", "", format!("connect failed: {e}"));
            return;
        }
    };
    #[derive(Clone, Debug)]
    struct Done {
        sent_at: u64,
        done_at: u64,
        result: Result<Option<u32>, String>,
    }
    let done: Rc<RefCell<BTreeMap<usize, Done>>> = Rc::new(RefCell::new(BTreeMap::new()));
    let mut joins = Vec::new();
    for i in 0..p.k {
        let ex = ex.clone();
        let done = done.clone();
        let start = p.start_us[i] * 1000;
        joins.push(exec::spawn(&format!("req{i}"), async move {
            if start > 0 {
                exec::sleep_ns(start).await;
            }
            let name = Name::from_ascii(format!("q{i}.example.")).unwrap();
            let mut opts = DnsRequestOptions::default();
            opts.use_edns = false;
            let req = DnsRequest::from_query(Query::new(name, RecordType::A), opts);
            let sent_at = exec::now_ns();
            let r = ex.send(req).next().await;
            let result = match r {
                Some(Ok(resp)) => Ok(marker_of(&resp)),
                Some(Err(e)) => Err(e.to_string()),
                None => Err("stream ended".into()),
            };
            exec::log(&format!("req{i} done {result:?}"));
            done.borrow_mut().insert(i, Done { sent_at, done_at: exec::now_ns(), result });
        }));
    }
    for j in joins {
        // every request must resolve: by answer, by its timeout, or by connection failure
        let limit = Duration::from_millis(p.timeout_ms + 200) + Duration::from_micros(*p.start_us.iter().max().unwrap_or(&0));
        if exec::timeout(limit, j).await.is_err() {
            exec::violate("C16.stream.hang", "", format!("a request was still pending {} ms after it could last have timed out", 200));
            return;
        }
    }
    let log = log.borrow();
    let done = done.borrow();
    // map request index -> wire id via the unique question names
    let mut wire: BTreeMap<usize, u16> = BTreeMap::new();
    for (id, qn) in &log.queries {
        if let Some(ix) = qn.strip_prefix('q').and_then(|s| s.split('.').next()).and_then(|s| s.parse::<usize>().ok()) {
            wire.insert(ix, *id);
        }
    }
    for (i, d) in done.iter() {
        // deadline
        if d.done_at - d.sent_at > p.timeout_ms * MS + 5 * MS {
            exec::violate("C16.stream.deadline", "", format!("request {i} resolved after {} ms, timeout {} ms", (d.done_at - d.sent_at) / MS, p.timeout_ms));
            return;
        }
        match &d.result {
            Ok(Some(marker)) => {
                exec::count("probe.stream_ok");
                let Some((mid, kind, qix)) = log.minted.get(*marker as usize - 1).copied() else {
                    exec::violate("C16.stream.route", "unknown-marker", format!("request {i} got marker {marker} nobody minted"));
                    return;
                };
                let Some(wid) = wire.get(i).copied() else {
                    exec::violate("C16.stream.route", "unsent", format!("request {i} completed but its query never reached the peer"));
                    return;
                };
                if mid != wid {
                    exec::violate("C16.stream.route", "wrong-id", format!("request {i} (wire id {wid}) completed with a response sent with id {mid} ({kind:?}, minted for query #{qix})"));
                    return;
                }
                if kind == RKind::UnknownId {
                    // The peer invents an id no query *it has seen* uses; a request whose query was
                    // still in flight can hold exactly that id (1 in 65536). The ids are equal
                    // here (checked above), so completing the request is what the statement asks.
                    exec::count("probe.invented_id_collided_with_in_flight_request");
                }
            }
            Ok(None) => {
                exec::violate("C16.stream.route", "no-marker", format!("request {i} completed with a message without marker"));
                return;
            }
            Err(e) => {
                exec::count("probe.stream_err");
                if e.contains("busy") || e.contains("Busy") {
                    exec::count("probe.busy");
                }
                if p.fault_free {
                    exec::violate("C16.stream.complete", "", format!("fault-free run: request {i} failed: {e}"));
                    return;
                }
            }
        }
    }
    // in-flight ids pairwise distinct
    let idx: Vec<usize> = done.keys().copied().collect();
    for a in 0..idx.len() {
        for b in a + 1..idx.len() {
            let (x, y) = (&done[&idx[a]], &done[&idx[b]]);
            let overlap = x.sent_at < y.done_at && y.sent_at < x.done_at;
            if overlap {
                if let (Some(ia), Some(ib)) = (wire.get(&idx[a]), wire.get(&idx[b])) {
                    if ia == ib {
                        exec::violate("C16.stream.ids", "", format!("requests {} and {} were outstanding at the same time with the same id {ia}", idx[a], idx[b]));
                        return;
                    }
                }
            }
        }
    }
    // closed connection fails every pending request promptly
    if let Some(closed_at) = log.closed_at {
        for (i, d) in done.iter() {
            if d.sent_at < closed_at && d.done_at > closed_at + 20 * MS && d.result.is_err() {
                // pending at close time, and only failed much later (i.e. by its own timeout)
                let answered_later = false;
                if !answered_later && d.done_at - closed_at > 20 * MS && (d.done_at - d.sent_at) + 5 * MS >= p.timeout_ms * MS {
                    exec::violate("C16.stream.close", "", format!("request {i} was pending when the peer closed at {} ms but only failed at {} ms (by timeout)", closed_at / MS, d.done_at / MS));
                    return;
                }
            }
        }
        exec::count("probe.closed_with_pending");
    }
    let _ = SEC;
}

pub fn def() -> CheckDef {
    CheckDef { id: "C16", level: "exploration", parts: vec![Box::new(Udp), Box::new(StreamPart)] }
}
