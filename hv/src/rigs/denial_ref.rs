//! Independent reference for "the presented records entail the claim" (C08 / C09).
//!
//! Written from RFC 4035 5.4, RFC 6840 4.1-4.4 (NSEC) and RFC 5155 8.3-8.8 (NSEC3); shares no code
//! with hickory's `verify_nsec` / `verify_nsec3`.  Input: the records an honest validator may use
//! (genuine records of the zone that arrive with their genuine RRSIG and their original owner),
//! the question and the claim of the response.  Output: `Ok(())` when every zone that is
//! consistent with those records makes the claim true, otherwise the reason it does not follow.

use std::collections::BTreeSet;

use hickory_proto::rr::{Name, RecordType};

#[derive(Clone, Debug)]
pub struct NsecFact {
    pub owner: Name,
    pub next: Name,
    pub types: BTreeSet<RecordType>,
}

#[derive(Clone, Debug)]
pub struct Nsec3Fact {
    pub owner_hash: Vec<u8>,
    pub next_hash: Vec<u8>,
    pub types: BTreeSet<RecordType>,
    pub opt_out: bool,
    pub salt: Vec<u8>,
    pub iterations: u16,
}

#[derive(Clone, Copy, Debug, PartialEq, Eq)]
pub enum ClaimKind {
    NxDomain,
    NoData,
    /// wildcard-expanded answer whose RRSIG Labels field is the given value
    Expansion(u8),
}

/// canonical order key (RFC 4034 6.1): labels right to left, lower-cased
pub fn canon_key(name: &Name) -> Vec<Vec<u8>> {
    name.to_lowercase().iter().rev().map(|l| l.to_vec()).collect()
}

/// number of labels, the wildcard label included (`Name::num_labels` leaves it out)
fn nl(name: &Name) -> usize {
    name.iter().count()
}

fn strict_subdomain(child: &Name, parent: &Name) -> bool {
    nl(child) > nl(parent) && parent.zone_of(child)
}

/// suffix of `name` with `labels` labels
fn suffix(name: &Name, labels: usize) -> Name {
    let mut n = name.clone();
    while nl(&n) > labels {
        n = n.base_name();
    }
    n
}

impl NsecFact {
    /// an NSEC from the parent side of a zone cut (NS without SOA) or at a DNAME owner says nothing
    /// about names below its owner (RFC 6840 4.1)
    fn silent_below(&self) -> bool {
        (self.types.contains(&RecordType::NS) && !self.types.contains(&RecordType::SOA)) || self.types.contains(&RecordType::from(39u16))
    }
    fn covers(&self, apex: &Name, x: &Name) -> bool {
        let (o, n, k) = (canon_key(&self.owner), canon_key(&self.next), canon_key(x));
        let last = self.next.to_lowercase() == apex.to_lowercase() || n <= o;
        o < k && (k < n || last)
    }
    /// may this record be used to show that `x` does not exist?
    fn denies(&self, apex: &Name, x: &Name) -> bool {
        self.covers(apex, x) && !(self.silent_below() && strict_subdomain(x, &self.owner))
    }
}

/// the closest encloser of the non-existent name `x`, as fixed by the record covering it: the
/// longest proper ancestor of `x` that is an ancestor-or-self of the record's owner or next name
/// (every such name exists, and a longer ancestor would lie inside the covered interval without
/// an existing descendant)
fn closest_encloser(apex: &Name, x: &Name, r: &NsecFact) -> Name {
    let mut a = x.base_name();
    loop {
        if nl(&a) <= nl(apex) {
            return apex.clone();
        }
        if a.zone_of(&r.owner) || a.zone_of(&r.next) {
            return a;
        }
        a = a.base_name();
    }
}

pub fn nsec_entails(apex: &Name, qname: &Name, qtype: RecordType, claim: ClaimKind, facts: &[NsecFact]) -> Result<(), String> {
    let absent = |x: &Name| -> Result<&NsecFact, String> {
        let Some(r) = facts.iter().find(|r| r.denies(apex, x)) else {
            return Err(if facts.iter().any(|r| r.covers(apex, x)) { "cover-from-zone-cut".into() } else { "name-not-covered".to_string() });
        };
        // the next name lying below x makes x an empty non-terminal: it exists
        if strict_subdomain(&r.next, x) {
            return Err("covered-name-is-ent".into());
        }
        Ok(r)
    };
    let type_absent = |r: &NsecFact, at_qname: bool| -> Result<(), String> {
        if r.types.contains(&qtype) {
            return Err("type-in-bitmap".into());
        }
        if r.types.contains(&RecordType::CNAME) {
            return Err("cname-in-bitmap".into());
        }
        // the parent side of a zone cut only speaks for DS (RFC 6840 4.1)
        if at_qname && r.silent_below() && qtype != RecordType::DS {
            return Err("nodata-from-zone-cut".into());
        }
        Ok(())
    };
    match claim {
        ClaimKind::NxDomain => {
            let r = absent(qname).map_err(|e| format!("qname:{e}"))?;
            let ce = closest_encloser(apex, qname, r);
            let w = ce.prepend_label("*").map_err(|_| "wildcard-name".to_string())?;
            if w.to_lowercase() != qname.to_lowercase() {
                absent(&w).map_err(|e| format!("wildcard:{e}"))?;
            }
            Ok(())
        }
        ClaimKind::NoData => {
            if let Some(r) = facts.iter().find(|r| r.owner.to_lowercase() == qname.to_lowercase()) {
                return type_absent(r, true).map_err(|e| format!("match:{e}"));
            }
            // empty non-terminal: covered, and the next name lies below it
            if let Some(r) = facts.iter().find(|r| r.denies(apex, qname)) {
                if strict_subdomain(&r.next, qname) {
                    return Ok(());
                }
            }
            // wildcard NODATA: qname absent, wildcard at the closest encloser matched without the type
            let r = absent(qname).map_err(|e| format!("qname:{e}"))?;
            let ce = closest_encloser(apex, qname, r);
            let w = ce.prepend_label("*").map_err(|_| "wildcard-name".to_string())?;
            let Some(m) = facts.iter().find(|r| r.owner.to_lowercase() == w.to_lowercase()) else { return Err("wildcard:no-match".into()) };
            type_absent(m, false).map_err(|e| format!("wildcard:{e}"))
        }
        ClaimKind::Expansion(labels) => {
            let r = absent(qname).map_err(|e| format!("qname:{e}"))?;
            let ce = closest_encloser(apex, qname, r);
            if nl(&ce) != labels as usize {
                return Err(if nl(&ce) > labels as usize { "closer-encloser-exists".into() } else { "encloser-shorter-than-source".to_string() });
            }
            Ok(())
        }
    }
}

// ------------------------------------------------------------------------------------------
// NSEC3

fn sha1_hash(salt: &[u8], iterations: u16, name: &Name) -> Vec<u8> {
    hickory_proto::dnssec::Nsec3HashAlgorithm::SHA1.hash(salt, &name.to_lowercase(), iterations).map(|d| d.as_ref().to_vec()).unwrap_or_default()
}

impl Nsec3Fact {
    /// `wrap_defect`: model of the recorded defect of hickory's `find_covering_record` (the last
    /// record of the chain covers every hash but its own) — used for attribution only
    fn covers(&self, h: &[u8], wrap_defect: bool) -> bool {
        let (o, n) = (self.owner_hash.as_slice(), self.next_hash.as_slice());
        if o < n {
            o < h && h < n
        } else if wrap_defect {
            h != o
        } else {
            // last record of the chain (or a chain of one)
            h > o || h < n
        }
    }
    fn from_zone_cut_or_dname(&self) -> bool {
        (self.types.contains(&RecordType::NS) && !self.types.contains(&RecordType::SOA)) || self.types.contains(&RecordType::from(39u16))
    }
}

/// RFC 5155 8.3: the longest ancestor-or-self of `qname` with a matching record whose next closer
/// name is covered.  Returns (closest encloser, the record covering the next closer name).
fn ce_proof<'a>(apex: &Name, qname: &Name, facts: &'a [Nsec3Fact], include_self: bool, wd: bool) -> Result<(Name, &'a Nsec3Fact), String> {
    let (salt, it) = (&facts[0].salt, facts[0].iterations);
    let mut labels = if include_self { nl(qname) } else { nl(qname) - 1 };
    loop {
        if labels < nl(apex) {
            return Err("no-closest-encloser".into());
        }
        let cand = suffix(qname, labels);
        let h = sha1_hash(salt, it, &cand);
        if let Some(m) = facts.iter().find(|f| f.owner_hash == h) {
            if nl(&cand) == nl(qname) {
                return Err("qname-matched".into());
            }
            if m.from_zone_cut_or_dname() {
                return Err("encloser-is-zone-cut".into());
            }
            let nc = suffix(qname, labels + 1);
            let hn = sha1_hash(salt, it, &nc);
            let Some(c) = facts.iter().find(|f| f.covers(&hn, wd)) else { return Err("next-closer-not-covered".into()) };
            return Ok((cand, c));
        }
        if labels == 0 {
            return Err("no-closest-encloser".into());
        }
        labels -= 1;
    }
}

pub fn nsec3_entails(apex: &Name, qname: &Name, qtype: RecordType, claim: ClaimKind, all: &[Nsec3Fact], wd: bool) -> Result<(), String> {
    if all.is_empty() {
        return Err("no-usable-records".into());
    }
    // records with differing parameters cannot be combined (RFC 5155 8.2): try every parameter group
    let mut groups: Vec<Vec<Nsec3Fact>> = Vec::new();
    for f in all {
        match groups.iter_mut().find(|g| g[0].salt == f.salt && g[0].iterations == f.iterations) {
            Some(g) => g.push(f.clone()),
            None => groups.push(vec![f.clone()]),
        }
    }
    let mut last = Err("no-usable-records".to_string());
    for g in &groups {
        last = nsec3_entails_group(apex, qname, qtype, claim, g, wd);
        if last.is_ok() {
            return last;
        }
    }
    last
}

fn nsec3_entails_group(apex: &Name, qname: &Name, qtype: RecordType, claim: ClaimKind, facts: &[Nsec3Fact], wd: bool) -> Result<(), String> {
    let (salt, it) = (&facts[0].salt, facts[0].iterations);
    let type_absent = |m: &Nsec3Fact, at_qname: bool| -> Result<(), String> {
        if m.types.contains(&qtype) {
            return Err("type-in-bitmap".into());
        }
        if m.types.contains(&RecordType::CNAME) {
            return Err("cname-in-bitmap".into());
        }
        if at_qname && m.from_zone_cut_or_dname() && qtype != RecordType::DS {
            return Err("nodata-from-zone-cut".into());
        }
        Ok(())
    };
    match claim {
        ClaimKind::NxDomain => {
            let (ce, _) = ce_proof(apex, qname, facts, true, wd)?;
            let w = ce.prepend_label("*").map_err(|_| "wildcard-name".to_string())?;
            let hw = sha1_hash(salt, it, &w);
            // (hickory only looks for a cover; with the wrap-around defect a cover is found even
            // though the wildcard is matched — part of the same defect)
            if !wd && facts.iter().any(|f| f.owner_hash == hw) {
                return Err("wildcard-matched".into());
            }
            if !facts.iter().any(|f| f.covers(&hw, wd)) {
                return Err("wildcard-not-covered".into());
            }
            Ok(())
        }
        ClaimKind::NoData => {
            let hq = sha1_hash(salt, it, qname);
            if let Some(m) = facts.iter().find(|f| f.owner_hash == hq) {
                return type_absent(m, true).map_err(|e| format!("match:{e}"));
            }
            // a genuine opt-out record covering H(qname) itself: the name has no NSEC3 record, so it
            // holds no signed data, in particular no DS (semantically sufficient; RFC 5155 8.6 words
            // it through the closest provable encloser)
            if qtype == RecordType::DS && facts.iter().any(|f| f.opt_out && f.covers(&hq, wd)) {
                return Ok(());
            }
            let (ce, cover) = ce_proof(apex, qname, facts, false, wd)?;
            // RFC 5155 8.6: DS at a name inside an opt-out span
            if qtype == RecordType::DS && cover.opt_out {
                return Ok(());
            }
            // RFC 5155 8.7: wildcard NODATA
            let w = ce.prepend_label("*").map_err(|_| "wildcard-name".to_string())?;
            let hw = sha1_hash(salt, it, &w);
            let Some(m) = facts.iter().find(|f| f.owner_hash == hw) else { return Err("wildcard:no-match".into()) };
            type_absent(m, false).map_err(|e| format!("wildcard:{e}"))
        }
        ClaimKind::Expansion(labels) => {
            // RFC 5155 8.8: the next closer name of the wildcard's parent is covered
            if labels as usize >= nl(qname) {
                return Err("labels-not-shorter".into());
            }
            let nc = suffix(qname, labels as usize + 1);
            let hn = sha1_hash(salt, it, &nc);
            // (as for the wildcard: hickory only looks for a cover, which the wrap-around defect supplies)
            if !wd && facts.iter().any(|f| f.owner_hash == hn) {
                return Err("next-closer-matched".into());
            }
            if !facts.iter().any(|f| f.covers(&hn, wd)) {
                return Err("next-closer-not-covered".into());
            }
            Ok(())
        }
    }
}

#[cfg(test)]
mod tests {
    use super::*;
    fn n(s: &str) -> Name {
        Name::from_ascii(s).unwrap()
    }
    fn f(o: &str, nx: &str, t: &[RecordType]) -> NsecFact {
        NsecFact { owner: n(o), next: n(nx), types: t.iter().copied().collect() }
    }
    #[test]
    fn rfc4035_examples() {
        let apex = n("example.");
        // zone: example. a.example. (A) *.w.example. (A) z.example (A)
        let chain = vec![
            f("example.", "a.example.", &[RecordType::SOA, RecordType::NS]),
            f("a.example.", "*.w.example.", &[RecordType::A]),
            f("*.w.example.", "z.example.", &[RecordType::A]),
            f("z.example.", "example.", &[RecordType::A]),
        ];
        // NXDOMAIN b.example.: covered by a -> *.w, wildcard *.example. covered by example. -> a
        assert!(nsec_entails(&apex, &n("b.example."), RecordType::A, ClaimKind::NxDomain, &chain).is_ok());
        assert!(nsec_entails(&apex, &n("b.example."), RecordType::A, ClaimKind::NxDomain, &chain[1..2]).is_err());
        // w.example. is an ENT: NXDOMAIN not entailed, NODATA entailed
        assert!(nsec_entails(&apex, &n("w.example."), RecordType::A, ClaimKind::NxDomain, &chain).is_err());
        assert!(nsec_entails(&apex, &n("w.example."), RecordType::A, ClaimKind::NoData, &chain).is_ok());
        // x.w.example. expands from *.w.example. (2 labels)
        assert!(nsec_entails(&apex, &n("x.w.example."), RecordType::A, ClaimKind::Expansion(2), &chain).is_ok());
        assert!(nsec_entails(&apex, &n("x.w.example."), RecordType::A, ClaimKind::Expansion(1), &chain).is_err());
        assert!(nsec_entails(&apex, &n("x.w.example."), RecordType::TXT, ClaimKind::NoData, &chain).is_ok());
        assert!(nsec_entails(&apex, &n("x.w.example."), RecordType::A, ClaimKind::NoData, &chain).is_err());
        // after the last name
        assert!(nsec_entails(&apex, &n("zz.example."), RecordType::A, ClaimKind::NxDomain, &chain).is_ok());
        // below a zone cut
        let cut = vec![f("example.", "d.example.", &[RecordType::SOA, RecordType::NS]), f("d.example.", "example.", &[RecordType::NS])];
        assert!(nsec_entails(&apex, &n("x.d.example."), RecordType::A, ClaimKind::NxDomain, &cut).is_err());
        assert!(nsec_entails(&apex, &n("d.example."), RecordType::A, ClaimKind::NoData, &cut).is_err());
        assert!(nsec_entails(&apex, &n("d.example."), RecordType::DS, ClaimKind::NoData, &cut).is_ok());
    }
}
