//! C15 — cached answers expire on time and TTLs only count down.
//!
//! Real `ResponseCache` (moka underneath).  moka reads the monotonic clock itself; the interposed
//! `clock_gettime` puts its notion of time and the caller-supplied `now` on one simulated line.

use std::time::{Duration, Instant};

use hickory_net::{DnsError, NetError, NoRecords};
use hickory_proto::op::{Message, OpCode, Query, ResponseCode};
use hickory_proto::rr::rdata::{A, AAAA, CNAME, MX, NS, SOA};
use hickory_proto::rr::{Name, RData, Record, RecordType};
use hickory_resolver::{ResponseCache, TtlConfig};
use hsim::exec::{self, SimConfig};
use hsim::rng::mix;
use hsim::supervisor::{CheckDef, Describe, Part, Report, Tier};
use hsim::Rng;
use serde::{Deserialize, Serialize};
use serde_json::{json, Value};

use super::update::finish;

const MAX_TTL: u64 = 86400 * 7;

#[derive(Serialize, Deserialize, Clone, Copy, Debug, Default, PartialEq)]
struct Bounds {
    pmin: Option<u64>,
    pmax: Option<u64>,
    nmin: Option<u64>,
    nmax: Option<u64>,
}

#[derive(Serialize, Deserialize, Clone, Debug, PartialEq)]
struct RecSpec {
    /// 0 answer, 1 authority, 2 additional
    section: u8,
    /// 0 A, 1 AAAA, 2 MX, 3 CNAME, 4 NS
    rtype: u8,
    ttl: u32,
}

#[derive(Serialize, Deserialize, Clone, Debug, PartialEq)]
enum Res {
    Positive(Vec<RecSpec>),
    Negative { negative_ttl: Option<u32>, soa_ttl: u32 },
    /// 0 Timeout, 1 Io, 2 Busy, 3 NoConnections, 4 Msg
    Transient(u8),
}

#[derive(Serialize, Deserialize, Clone, Debug, PartialEq)]
enum Op {
    /// insert stamped `back_ms` before the current time (the request's start time)
    Insert { q: usize, res: Res, back_ms: u64 },
    Get { q: usize },
    Advance { ms: u64 },
}

#[derive(Serialize, Deserialize, Clone, Debug)]
struct Plan {
    sim: SimConfig,
    capacity: u64,
    default: Bounds,
    /// per query-type bounds: (type index as in RecSpec.rtype, bounds)
    per_type: Vec<(u8, Bounds)>,
    ops: Vec<Op>,
    /// build the configuration the way the stub resolver does (`TtlConfig::from_opts` +
    /// `with_query_type_ttl_bounds`) instead of through its serde form
    #[serde(default)]
    via_opts: bool,
}

fn rt(i: u8) -> RecordType {
    [RecordType::A, RecordType::AAAA, RecordType::MX, RecordType::CNAME, RecordType::NS][i as usize % 5]
}

fn queries() -> Vec<Query> {
    let n = |s: &str| Name::from_ascii(s).unwrap();
    vec![Query::new(n("a.example."), RecordType::A), Query::new(n("a.example."), RecordType::AAAA), Query::new(n("b.example."), RecordType::MX)]
}

fn rdata(t: RecordType, k: usize) -> RData {
    let n = |s: &str| Name::from_ascii(s).unwrap();
    match t {
        RecordType::A => RData::A(A::new(192, 0, 2, k as u8)),
        RecordType::AAAA => RData::AAAA(AAAA::new(0x2001, 0xdb8, 0, 0, 0, 0, 0, k as u16)),
        RecordType::MX => RData::MX(MX::new(k as u16, n("mx.example."))),
        RecordType::CNAME => RData::CNAME(CNAME(n(&format!("c{k}.example.")))),
        _ => RData::NS(NS(n(&format!("ns{k}.example.")))),
    }
}

fn bounds_json(b: &Bounds) -> Value {
    json!({"positive_min_ttl": b.pmin, "positive_max_ttl": b.pmax, "negative_min_ttl": b.nmin, "negative_max_ttl": b.nmax})
}

fn bounds_for(p: &Plan, t: RecordType) -> Bounds {
    p.per_type.iter().rev().find(|(i, _)| rt(*i) == t).map(|(_, b)| *b).unwrap_or(p.default)
}

fn clamp(v: u64, lo: Option<u64>, hi: Option<u64>) -> u64 {
    // Duration::clamp panics when min > max; the statement says nothing about that configuration,
    // the generator keeps min <= max
    v.clamp(lo.unwrap_or(0), hi.unwrap_or(MAX_TTL))
}

fn gen_bounds(r: &mut Rng) -> Bounds {
    let mut b = Bounds::default();
    if r.chance(1, 2) {
        b.pmin = Some(*r.pick(&[0u64, 1, 5, 60, 600]));
    }
    if r.chance(1, 2) {
        b.pmax = Some(*r.pick(&[0u64, 1, 10, 60, 3600]));
    }
    if let (Some(a), Some(c)) = (b.pmin, b.pmax) {
        if a > c {
            b.pmax = Some(a);
        }
    }
    if r.chance(1, 2) {
        b.nmin = Some(*r.pick(&[0u64, 1, 5, 60]));
    }
    if r.chance(1, 2) {
        b.nmax = Some(*r.pick(&[0u64, 1, 10, 300]));
    }
    if let (Some(a), Some(c)) = (b.nmin, b.nmax) {
        if a > c {
            b.nmax = Some(a);
        }
    }
    b
}

pub struct C15Part;

impl Part for C15Part {
    fn name(&self) -> &'static str {
        "cache"
    }
    fn runs(&self, tier: Tier) -> u64 {
        match tier {
            Tier::Quick => 60_000,
            Tier::Thorough => 3_000_000,
        }
    }
    fn block(&self, _t: Tier) -> u64 {
        256
    }
    fn fresh_thread(&self) -> bool {
        // no network, no select!, no entropy-dependent decisions in this rig's code path; the
        // determinism self-test compares in-block runs with runs alone in a fresh process
        false
    }
    fn gen(&self, seed: u64, _tier: Tier) -> Value {
        let mut r = Rng::new(seed);
        let mut sim = SimConfig::from_seed(seed);
        sim.max_sim_ns = 4_000_000_000 * 1_000_000_000;
        let nops = 2 + r.usize_below(11);
        let ttls = [0u32, 1, 2, 5, 30, 60, 300, 3600];
        let mut ops = Vec::new();
        for _ in 0..nops {
            match r.below(10) {
                0..=3 => {
                    let q = r.usize_below(3);
                    let res = match r.below(10) {
                        0..=5 => {
                            let n = 1 + r.usize_below(4);
                            Res::Positive((0..n).map(|_| RecSpec { section: *r.pick(&[0u8, 0, 0, 1, 2]), rtype: r.below(5) as u8, ttl: *r.pick(&ttls) }).collect())
                        }
                        6..=7 => Res::Negative { negative_ttl: if r.chance(3, 4) { Some(*r.pick(&ttls)) } else { None }, soa_ttl: *r.pick(&ttls) },
                        _ => Res::Transient(r.below(5) as u8),
                    };
                    ops.push(Op::Insert { q, res, back_ms: *r.pick(&[0u64, 0, 1, 500, 1500, 10_000]) });
                }
                4..=6 => ops.push(Op::Get { q: r.usize_below(3) }),
                _ => ops.push(Op::Advance { ms: *r.pick(&[0u64, 1, 400, 999, 1000, 1001, 1999, 2000, 4999, 5000, 5001, 30_000, 60_000, 61_000, 3_600_000]) }),
            }
        }
        ops.push(Op::Get { q: r.usize_below(3) });
        let per_type = (0..r.usize_below(3)).map(|_| (r.below(5) as u8, gen_bounds(&mut r))).collect();
        let via_opts = r.chance(1, 3);
        serde_json::to_value(Plan { sim, capacity: *r.pick(&[1u64, 2, 100, 100]), default: gen_bounds(&mut r), per_type, ops, via_opts }).unwrap()
    }
    fn run(&self, plan: &Value, trace: bool) -> Report {
        let mut p: Plan = serde_json::from_value(plan.clone()).expect("plan");
        p.sim.trace = trace;
        let mut sig = mix(p.capacity ^ (p.per_type.len() as u64) << 8);
        for o in &p.ops {
            sig = mix(sig
                ^ match o {
                    Op::Insert { q, res, back_ms } => {
                        1 << 20
                            | (*q as u64) << 16
                            | (match res {
                                Res::Positive(v) => v.len() as u64,
                                Res::Negative { .. } => 8,
                                Res::Transient(_) => 9,
                            }) << 8
                            | (*back_ms > 0) as u64
                    }
                    Op::Get { q } => 2 << 20 | *q as u64,
                    Op::Advance { ms } => 3 << 20 | (*ms).min(6000),
                });
        }
        let nontrivial = p.ops.iter().any(|o| matches!(o, Op::Advance { .. })) && p.ops.iter().any(|o| matches!(o, Op::Insert { .. }));
        let p2 = p.clone();
        let out = exec::run(&p.sim, async move { scenario(p2).await });
        finish(out, sig, nontrivial, "C15.stall")
    }
    fn shrink(&self, plan: &Value) -> Vec<Value> {
        let Ok(p) = serde_json::from_value::<Plan>(plan.clone()) else { return vec![] };
        let mut out = Vec::new();
        for i in 0..p.ops.len() {
            let mut q = p.clone();
            q.ops.remove(i);
            out.push(q);
        }
        for i in 0..p.per_type.len() {
            let mut q = p.clone();
            q.per_type.remove(i);
            out.push(q);
        }
        if p.default != Bounds::default() {
            let mut q = p.clone();
            q.default = Bounds::default();
            out.push(q);
        }
        for i in 0..p.ops.len() {
            if let Op::Insert { q: qi, res: Res::Positive(v), back_ms } = &p.ops[i] {
                for j in 0..v.len() {
                    if v.len() > 1 {
                        let mut q = p.clone();
                        let mut v2 = v.clone();
                        v2.remove(j);
                        q.ops[i] = Op::Insert { q: *qi, res: Res::Positive(v2), back_ms: *back_ms };
                        out.push(q);
                    }
                }
                if *back_ms != 0 {
                    let mut q = p.clone();
                    q.ops[i] = Op::Insert { q: *qi, res: Res::Positive(v.clone()), back_ms: 0 };
                    out.push(q);
                }
            }
        }
        out.into_iter().map(|q| serde_json::to_value(q).unwrap()).collect()
    }
    fn describe(&self) -> Describe {
        Describe {
            rule: "plan = (capacity in {1,2,100}, default and per-query-type TTL bounds incl. min>ttl, max<ttl, min=max, 0, history of 3-13 operations over 3 queries: insert(positive message with 1-4 records of mixed types/sections/TTLs | NoRecordsFound with/without negative TTL | transient error) stamped up to 10 s in the past, get, advance by sub-second / to-the-second / +-1 s / large amounts); non-trivial = at least one insert and one clock advance; distinct by the operation sequence shape".into(),
            real: vec!["hickory_resolver::ResponseCache::{insert,get}, clamp_positive_ttls, Entry::{is_current, updated_ttl}, TtlConfig (built through its serde form)", "moka::sync::Cache with the Expiry hooks (reads the simulated monotonic clock)"],
            stub: vec!["reference map (oracle)"],
            assumptions: vec!["a miss is always legal (the property bounds staleness, not hit rate); configurations with min > max are not generated"],
        }
    }
}

struct ModelEntry {
    t_ins_ns: u64,
    lifetime_s: u64,
    /// (section, type, clamped ttl) in insertion order; for negative entries the clamped negative ttl
    recs: Vec<(u8, RecordType, u32)>,
    negative: Option<Option<u32>>,
    /// last TTLs reported for this entry, to check monotonic decrease
    last_reported: Option<Vec<u32>>,
    id: u32,
}

async fn scenario(p: Plan) {
    let mut cfgmap = serde_json::Map::new();
    cfgmap.insert("default".into(), bounds_json(&p.default));
    for (t, b) in &p.per_type {
        cfgmap.insert(rt(*t).to_string(), bounds_json(b));
    }
    let ttl_config: TtlConfig = if p.via_opts {
        let mut opts = hickory_resolver::config::ResolverOpts::default();
        opts.positive_min_ttl = p.default.pmin.map(Duration::from_secs);
        opts.positive_max_ttl = p.default.pmax.map(Duration::from_secs);
        opts.negative_min_ttl = p.default.nmin.map(Duration::from_secs);
        opts.negative_max_ttl = p.default.nmax.map(Duration::from_secs);
        let mut c = TtlConfig::from_opts(&opts);
        for (t, b) in &p.per_type {
            match serde_json::from_value::<hickory_resolver::TtlBounds>(bounds_json(b)) {
                Ok(tb) => {
                    c.with_query_type_ttl_bounds(rt(*t), tb);
                }
                Err(e) => {
                    exec::violate("C15.harness", "", format!("ttl bounds: {e}"));
                    return;
                }
            }
        }
        exec::count("probe.config_via_opts");
        c
    } else {
        match serde_json::from_value(Value::Object(cfgmap)) {
            Ok(c) => c,
            Err(e) => {
                exec::violate("C15.harness", "", format!("ttl config: {e}"));
                return;
            }
        }
    };
    let cache = ResponseCache::new(p.capacity, ttl_config);
    let qs = queries();
    let base = Instant::now();
    let base_ns = exec::now_ns();
    let inst = |ns: u64| base + Duration::from_nanos(ns.saturating_sub(base_ns));
    let mut model: Vec<Option<ModelEntry>> = vec![None, None, None];
    let mut next_id = 0u32;
    // start a little into the run so that "stamped in the past" is representable
    exec::sleep_ns(20_000_000_000).await;

    for (oi, op) in p.ops.iter().enumerate() {
        match op {
            Op::Advance { ms } => {
                exec::sleep_ns(ms * 1_000_000).await;
                exec::count("fault.clock_advance");
            }
            Op::Insert { q, res, back_ms } => {
                let q = *q % 3;
                let query = qs[q].clone();
                let now_ns = exec::now_ns();
                let t_ns = now_ns - back_ms * 1_000_000;
                next_id += 1;
                match res {
                    Res::Transient(k) => {
                        let e = match k % 5 {
                            0 => NetError::Timeout,
                            1 => NetError::from(std::io::Error::new(std::io::ErrorKind::ConnectionReset, "reset")),
                            2 => NetError::Busy,
                            3 => NetError::NoConnections,
                            _ => NetError::from("some message"),
                        };
                        cache.insert(query, Err(e), inst(t_ns));
                        exec::count("probe.transient_insert");
                    }
                    Res::Negative { negative_ttl, soa_ttl } => {
                        let b = bounds_for(&p, query.query_type);
                        let mut nr = NoRecords::new(query.clone(), ResponseCode::NXDomain);
                        nr.negative_ttl = *negative_ttl;
                        let n = |s: &str| Name::from_ascii(s).unwrap();
                        nr.soa = Some(Box::new(Record::from_rdata(n("example."), *soa_ttl, SOA::new(n("ns.example."), n("admin.example."), 1, 3600, 600, 86400, 60))));
                        cache.insert(query, Err(NetError::Dns(DnsError::NoRecordsFound(nr))), inst(t_ns));
                        let life = match negative_ttl {
                            Some(t) => clamp(*t as u64, b.nmin, b.nmax),
                            None => b.nmin.unwrap_or(0),
                        };
                        model[q] = Some(ModelEntry { t_ins_ns: t_ns, lifetime_s: life, recs: vec![], negative: Some(*negative_ttl), last_reported: None, id: next_id });
                    }
                    Res::Positive(recs) => {
                        let mut m = Message::response(1, OpCode::Query);
                        m.add_query(query.clone());
                        let mut mrecs = Vec::new();
                        for (k, rs) in recs.iter().enumerate() {
                            let t = rt(rs.rtype);
                            let rec = Record::from_rdata(query.name.clone(), rs.ttl, rdata(t, k + 1));
                            match rs.section % 3 {
                                0 => m.add_answer(rec),
                                1 => m.add_authority(rec),
                                _ => m.add_additional(rec),
                            };
                            let b = bounds_for(&p, t);
                            mrecs.push((rs.section % 3, t, clamp(rs.ttl as u64, b.pmin, b.pmax) as u32));
                        }
                        cache.insert(query.clone(), Ok(m), inst(t_ns));
                        let qb = bounds_for(&p, query.query_type);
                        let min = mrecs.iter().filter(|(_, t, _)| *t == query.query_type || *t == RecordType::CNAME).map(|(_, _, ttl)| *ttl as u64).min();
                        let life = clamp(min.unwrap_or(qb.pmin.unwrap_or(0)), qb.pmin, qb.pmax);
                        // message sections are emitted answers, authorities, additionals
                        let mut ordered = Vec::new();
                        for s in 0..3u8 {
                            ordered.extend(mrecs.iter().filter(|(sec, _, _)| *sec == s).cloned());
                        }
                        model[q] = Some(ModelEntry { t_ins_ns: t_ns, lifetime_s: life, recs: ordered, negative: None, last_reported: None, id: next_id });
                    }
                }
            }
            Op::Get { q } => {
                let q = *q % 3;
                let now_ns = exec::now_ns();
                let got = cache.get(&qs[q], inst(now_ns));
                let Some(got) = got else {
                    exec::count("probe.miss");
                    continue;
                };
                exec::count("probe.hit");
                let Some(me) = model[q].as_mut() else {
                    exec::violate("C15.phantom", "", format!("op {oi}: get returned an entry for a query that was never (successfully) inserted"));
                    return;
                };
                let elapsed_ns = now_ns.saturating_sub(me.t_ins_ns);
                let elapsed_s = elapsed_ns / 1_000_000_000;
                if elapsed_ns > me.lifetime_s * 1_000_000_000 {
                    if exec::violate("C15.stale", if me.negative.is_some() { "negative" } else { "positive" }, format!("op {oi}: entry #{} returned {:.3} s after its insertion time, lifetime {} s", me.id, elapsed_ns as f64 / 1e9, me.lifetime_s)) {
                        return;
                    }
                }
                if elapsed_ns == me.lifetime_s * 1_000_000_000 {
                    exec::count("probe.hit_exactly_at_expiry");
                }
                match got {
                    Ok(msg) => {
                        if me.negative.is_some() {
                            exec::violate("C15.wrong-entry", "", format!("op {oi}: positive message returned, last insert was negative"));
                            return;
                        }
                        let reported: Vec<u32> = msg.answers.iter().chain(msg.authorities.iter()).chain(msg.additionals.iter()).map(|r| r.ttl).collect();
                        let expect: Vec<u32> = me.recs.iter().map(|(_, _, t)| (*t as u64).saturating_sub(elapsed_s) as u32).collect();
                        if reported != expect {
                            if exec::violate("C15.ttl", "positive", format!("op {oi}: entry #{} after {elapsed_s} s reports TTLs {reported:?}, expected clamped-minus-elapsed {expect:?} (clamped {:?})", me.id, me.recs)) {
                                return;
                            }
                        }
                        if let Some(prev) = &me.last_reported {
                            if prev.len() == reported.len() && prev.iter().zip(reported.iter()).any(|(a, b)| b > a) {
                                if exec::violate("C15.ttl-increased", "", format!("op {oi}: TTLs went from {prev:?} to {reported:?} without a refresh")) {
                                    return;
                                }
                            }
                        }
                        me.last_reported = Some(reported);
                    }
                    Err(NetError::Dns(DnsError::NoRecordsFound(nr))) => {
                        let Some(orig) = me.negative else {
                            exec::violate("C15.wrong-entry", "", format!("op {oi}: negative answer returned, last insert was positive"));
                            return;
                        };
                        if let (Some(o), Some(now_ttl)) = (orig, nr.negative_ttl) {
                            let expect = (o as u64).saturating_sub(elapsed_s) as u32;
                            if now_ttl != expect {
                                if exec::violate("C15.ttl", "negative", format!("op {oi}: negative TTL {now_ttl}, expected {expect}")) {
                                    return;
                                }
                            }
                        }
                    }
                    Err(e) => {
                        exec::violate("C15.transient-cached", "", format!("op {oi}: cache returned a transient error: {e}"));
                        return;
                    }
                }
            }
        }
    }
}

pub fn def() -> CheckDef {
    CheckDef { id: "C15", level: "exploration", parts: vec![Box::new(C15Part)] }
}
