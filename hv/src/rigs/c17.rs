//! C17 — stream framing is independent of how the bytes are chunked.
//!
//! Real code: `hickory_net::tcp::TcpStream` on both ends (optionally wrapped in
//! `TcpClientStream` / server `TimeoutStream`), `BufDnsStreamHandle`.
//! Stub: the byte pipe (`hsim::net::SimTcp`) whose every read/write/flush is decided by the plan.

use std::cell::RefCell;
use std::net::SocketAddr;
use std::pin::Pin;
use std::rc::Rc;
use std::time::Duration;

use futures_util::stream::{Stream, StreamExt};
use hickory_net::tcp::{TcpClientStream, TcpStream};
use hickory_net::xfer::DnsStreamHandle;
use hickory_proto::op::SerialMessage;
use hickory_server::server::TimeoutStream;
use hsim::exec::{self, SimConfig};
use hsim::net::{self, CutKind, PipePlan, SimTcp, MS};
use hsim::rng::{hash_bytes, mix};
use hsim::supervisor::{CheckDef, Describe, Part, Report, Tier};
use hsim::{End, Rng};
use serde::{Deserialize, Serialize};
use serde_json::Value;

#[derive(Serialize, Deserialize, Clone, Debug, PartialEq)]
struct Msg {
    len: usize,
    fill: u64,
}

impl Msg {
    fn bytes(&self) -> Vec<u8> {
        Rng::new(self.fill).bytes(self.len)
    }
}

#[derive(Serialize, Deserialize, Clone, Debug)]
struct Plan {
    sim: SimConfig,
    /// 0: TcpStream both ends; 1: receiver of the cut direction behind TimeoutStream(0);
    /// 2: receiver of the cut direction is a TcpClientStream
    variant: u8,
    /// messages per direction (0 = client→server)
    msgs: [Vec<Msg>; 2],
    pipes: [PipePlan; 2],
    /// which direction carries the cut (the other one never closes)
    cut_dir: usize,
    /// scheduler yields before each message is handed to the stream handle
    gaps: [Vec<u32>; 2],
    drop_handle: [bool; 2],
}

#[derive(Debug, Clone, PartialEq)]
enum Item {
    Msg(Vec<u8>),
    Err(String),
    End,
}

type ItemStream = Pin<Box<dyn Stream<Item = Result<Vec<u8>, String>>>>;

fn wrap(stream: TcpStream<SimTcp>, variant: u8) -> ItemStream {
    match variant {
        1 => Box::pin(TimeoutStream::new(stream, Duration::ZERO).map(|r| r.map(|m| m.into_parts().0).map_err(|e| e.to_string()))),
        2 => Box::pin(TcpClientStream::from_stream(stream).map(|r| r.map(|m| m.into_parts().0).map_err(|e| e.to_string()))),
        _ => Box::pin(stream.map(|r| r.map(|m| m.into_parts().0).map_err(|e| e.to_string()))),
    }
}

fn frames(msgs: &[Msg]) -> (Vec<u8>, Vec<usize>) {
    let mut e = Vec::new();
    let mut bounds = vec![0usize];
    for m in msgs {
        e.extend_from_slice(&(m.len as u16).to_be_bytes());
        e.extend_from_slice(&m.bytes());
        bounds.push(e.len());
    }
    (e, bounds)
}

fn gen_sizes(r: &mut Rng, total: usize) -> Vec<usize> {
    let n = r.usize_below(48);
    let mode = r.below(5);
    (0..n)
        .map(|_| match mode {
            0 => 1,
            1 => 1 + r.usize_below(3),
            2 => {
                if r.chance(1, 4) {
                    1 + r.usize_below(4)
                } else {
                    1 + r.usize_below(total.max(1))
                }
            }
            3 => {
                if r.chance(1, 6) {
                    1
                } else {
                    usize::MAX / 2
                }
            }
            _ => 1 + r.usize_below(9),
        })
        .collect()
}

fn gen_pending(r: &mut Rng) -> Vec<u64> {
    if r.chance(2, 5) {
        return Vec::new();
    }
    let p = 1 + r.below(4);
    (0..64u64).filter(|_| r.chance(p, 12)).collect()
}

pub fn gen_pipe(r: &mut Rng, total: usize) -> PipePlan {
    PipePlan {
        write_sizes: gen_sizes(r, total),
        read_sizes: gen_sizes(r, total),
        write_pending: gen_pending(r),
        read_pending: gen_pending(r),
        flush_pending: gen_pending(r),
        pending_wake_ns: match r.below(3) {
            0 => 0,
            1 => MS,
            _ => r.below(5 * MS),
        },
        cut: None,
        latency_ns: if r.chance(4, 5) { 0 } else { 1 + r.below(3 * MS) },
        capacity: if r.chance(7, 10) { 0 } else { 1 + r.usize_below(16) },
    }
}

fn gen_msgs(r: &mut Rng, tier: Tier, max: usize, seed: u64, dir: u64) -> Vec<Msg> {
    let n = r.usize_below(max + 1);
    (0..n)
        .map(|i| {
            let len = match r.below(8) {
                0 => 1,
                1 => 2,
                2 => 255,
                3 => 256,
                4 => 300,
                5 if tier == Tier::Thorough && r.chance(1, 10) => *r.pick(&[65535usize, 65534, 512, 4096, 1232]),
                _ => 1 + r.usize_below(300),
            };
            Msg { len, fill: mix(seed ^ (dir << 32) ^ i as u64) }
        })
        .collect()
}

pub struct Framing;

impl Part for Framing {
    fn name(&self) -> &'static str {
        "framing"
    }
    fn runs(&self, tier: Tier) -> u64 {
        match tier {
            Tier::Quick => 240_000,
            Tier::Thorough => 12_000_000,
        }
    }
    fn block(&self, _tier: Tier) -> u64 {
        500
    }
    fn fresh_thread(&self) -> bool {
        // no entropy, no hashed collections, no select! anywhere in this rig's code path
        false
    }
    fn gen(&self, seed: u64, tier: Tier) -> Value {
        let mut r = Rng::new(seed);
        let mut sim = SimConfig::from_seed(seed);
        sim.step_budget = 400_000;
        let cut_dir = if r.chance(3, 4) { 0 } else { 1 };
        let mut msgs = [gen_msgs(&mut r, tier, 3, seed, 0), gen_msgs(&mut r, tier, 3, seed, 1)];
        if msgs[cut_dir].is_empty() && r.chance(9, 10) {
            msgs[cut_dir] = vec![Msg { len: 1 + r.usize_below(300), fill: mix(seed ^ 77) }];
        }
        if r.chance(1, 2) {
            msgs[1 - cut_dir].clear();
        }
        let totals: Vec<usize> = msgs.iter().map(|m| frames(m).0.len()).collect();
        let mut pipes = [gen_pipe(&mut r, totals[0]), gen_pipe(&mut r, totals[1])];
        // the cut
        let (_, bounds) = frames(&msgs[cut_dir]);
        let total = totals[cut_dir] as u64;
        let off = if r.chance(1, 2) {
            total
        } else {
            let b = *r.pick(&bounds) as u64;
            match r.below(6) {
                0 => b,
                1 => b + 1,
                2 => b + 2,
                3 => b + 3,
                4 => b.saturating_sub(1),
                _ => r.below(total + 1),
            }
            .min(total)
        };
        let kind = if r.chance(7, 10) { CutKind::Eof } else { CutKind::Reset };
        pipes[cut_dir].cut = Some((off, kind));
        let gaps = [
            msgs[0].iter().map(|_| if r.chance(1, 2) { 0 } else { r.below(6) as u32 }).collect(),
            msgs[1].iter().map(|_| if r.chance(1, 2) { 0 } else { r.below(6) as u32 }).collect(),
        ];
        let p = Plan { sim, variant: r.below(3) as u8, msgs, pipes, cut_dir, gaps, drop_handle: [r.chance(1, 3), r.chance(1, 3)] };
        serde_json::to_value(p).unwrap()
    }

    fn run(&self, plan: &Value, trace: bool) -> Report {
        let mut plan: Plan = serde_json::from_value(plan.clone()).expect("plan");
        plan.sim.trace = trace;
        // normalise (plans may have been shrunk)
        let total_cut = frames(&plan.msgs[plan.cut_dir]).0.len() as u64;
        let cd = plan.cut_dir;
        let (off, kind) = plan.pipes[cd].cut.unwrap_or((total_cut, CutKind::Eof));
        let off = off.min(total_cut);
        plan.pipes[cd].cut = Some((off, kind));
        plan.pipes[1 - cd].cut = None;
        for d in 0..2 {
            plan.gaps[d].resize(plan.msgs[d].len(), 0);
            // Back-pressure (writer blocked until the peer reads) is only injected towards an
            // endpoint that has nothing to send itself: TcpStream deliberately does not read
            // while it has data to write, so two peers that both write more than the socket
            // buffers hold block each other for ever.  That is flow control, not framing, and
            // is outside what C17 states (recorded as an observation in DESIGN.md).
            if !plan.msgs[1 - d].is_empty() {
                plan.pipes[d].capacity = 0;
            }
        }

        let (sig, nontrivial) = signature(&plan);
        let p2 = plan.clone();
        let out = exec::run(&plan.sim, async move { scenario(p2).await });
        let mut rep = Report {
            violation: out.violation.clone(),
            counters: out.counters,
            sig,
            nontrivial,
            log_hash: out.log_hash,
            ilog_hash: out.ilog_hash,
            sim_ns: out.sim_ns,
            steps: out.steps,
            trace: out.trace,
        };
        if rep.violation.is_none() && out.end != End::Completed {
            rep.violation = Some(hsim::Violation {
                invariant: "C17.stall".into(),
                shape: String::new(),
                detail: format!("run ended {:?} after {} steps / {} ns without the receivers finishing", out.end, out.steps, out.sim_ns),
            });
        }
        rep
    }

    fn shrink(&self, plan: &Value) -> Vec<Value> {
        let p: Plan = match serde_json::from_value(plan.clone()) {
            Ok(p) => p,
            Err(_) => return vec![],
        };
        let mut c: Vec<Plan> = Vec::new();
        let mut push = |q: Plan| c.push(q);
        for d in 0..2 {
            if !p.msgs[d].is_empty() && !(d == p.cut_dir && p.msgs[d].len() == 1) {
                for i in (0..p.msgs[d].len()).rev() {
                    let mut q = p.clone();
                    q.msgs[d].remove(i);
                    if i < q.gaps[d].len() {
                        q.gaps[d].remove(i);
                    }
                    push(q);
                }
            }
            for field in 0..5 {
                let mut q = p.clone();
                let pp = &mut q.pipes[d];
                let changed = match field {
                    0 => !std::mem::take(&mut pp.write_pending).is_empty(),
                    1 => !std::mem::take(&mut pp.read_pending).is_empty(),
                    2 => !std::mem::take(&mut pp.flush_pending).is_empty(),
                    3 => !std::mem::take(&mut pp.write_sizes).is_empty(),
                    _ => !std::mem::take(&mut pp.read_sizes).is_empty(),
                };
                if changed {
                    push(q);
                }
            }
            if p.pipes[d].latency_ns != 0 {
                let mut q = p.clone();
                q.pipes[d].latency_ns = 0;
                push(q);
            }
            if p.pipes[d].capacity != 0 {
                let mut q = p.clone();
                q.pipes[d].capacity = 0;
                push(q);
            }
            if p.pipes[d].pending_wake_ns != 0 {
                let mut q = p.clone();
                q.pipes[d].pending_wake_ns = 0;
                push(q);
            }
            if p.gaps[d].iter().any(|g| *g != 0) {
                let mut q = p.clone();
                q.gaps[d].iter_mut().for_each(|g| *g = 0);
                push(q);
            }
            // truncate and thin the size lists
            for which in 0..2 {
                let list = if which == 0 { &p.pipes[d].write_sizes } else { &p.pipes[d].read_sizes };
                if list.len() > 1 {
                    let mut q = p.clone();
                    let l = if which == 0 { &mut q.pipes[d].write_sizes } else { &mut q.pipes[d].read_sizes };
                    l.truncate(list.len() / 2);
                    push(q);
                }
                for i in 0..list.len().min(12) {
                    let mut q = p.clone();
                    let l = if which == 0 { &mut q.pipes[d].write_sizes } else { &mut q.pipes[d].read_sizes };
                    l.remove(i);
                    push(q);
                }
            }
            for which in 0..3 {
                let list = match which {
                    0 => &p.pipes[d].write_pending,
                    1 => &p.pipes[d].read_pending,
                    _ => &p.pipes[d].flush_pending,
                };
                for i in 0..list.len().min(10) {
                    let mut q = p.clone();
                    let l = match which {
                        0 => &mut q.pipes[d].write_pending,
                        1 => &mut q.pipes[d].read_pending,
                        _ => &mut q.pipes[d].flush_pending,
                    };
                    l.remove(i);
                    push(q);
                }
            }
            for (i, m) in p.msgs[d].iter().enumerate() {
                for nl in [1usize, 2, 3, m.len / 2] {
                    if nl >= 1 && nl < m.len {
                        let mut q = p.clone();
                        q.msgs[d][i].len = nl;
                        push(q);
                    }
                }
            }
        }
        if p.variant != 0 {
            let mut q = p.clone();
            q.variant = 0;
            push(q);
        }
        if p.sim.policy != hsim::SchedPolicy::Fifo {
            let mut q = p.clone();
            q.sim.policy = hsim::SchedPolicy::Fifo;
            push(q);
        }
        for d in 0..2 {
            if p.drop_handle[d] {
                let mut q = p.clone();
                q.drop_handle[d] = false;
                push(q);
            }
        }
        c.into_iter().map(|q| serde_json::to_value(q).unwrap()).collect()
    }

    fn describe(&self) -> Describe {
        Describe {
            rule: "plan = (1-3 messages per direction with lengths from {1,2,255,256,300,random<=300; thorough also up to 65535}, per-call write-acceptance sizes, per-call read sizes, call indices returning Pending on read/write/flush, wake delay, pipe latency, back-pressure capacity, cut offset+kind, enqueue gaps, wrapper variant, scheduler policy+seed); non-trivial = at least one split strictly inside a frame, an injected Pending, or a cut before the end; distinct by (length classes, set of split classes {in-prefix, prefix/body edge, in-body, message edge} for reads and writes, pending kinds, cut class, variant, bidirectional)".into(),
            real: vec!["hickory_net::tcp::TcpStream (send and receive state machines)", "hickory_net::tcp::TcpClientStream", "hickory_server::server::TimeoutStream (zero timeout)", "hickory_net::xfer::BufDnsStreamHandle"],
            stub: vec!["byte pipe SimTcp implementing AsyncRead/AsyncWrite", "scripted message producer"],
            assumptions: vec!["AsyncRead/AsyncWrite contract: a Pending return always arranges a wake-up", "a reset is observed by the reader after the bytes that preceded it (bytes before the cut offset are delivered)"],
        }
    }
}

fn class_of(pos: usize, bounds: &[usize]) -> u32 {
    // position `pos` = number of bytes before the split
    for w in bounds.windows(2) {
        let (s, e) = (w[0], w[1]);
        if pos == s {
            return 4; // message edge
        }
        if pos > s && pos < e {
            return if pos == s + 1 {
                1 // inside the length prefix
            } else if pos == s + 2 {
                2 // prefix/body edge
            } else {
                3 // inside the body
            };
        }
    }
    4
}

fn signature(p: &Plan) -> (u64, bool) {
    let mut h = 0u64;
    let mut nontrivial = false;
    for d in 0..2 {
        let (e, bounds) = frames(&p.msgs[d]);
        let lens: Vec<u8> = p.msgs[d]
            .iter()
            .map(|m| match m.len {
                1 => 1,
                2 => 2,
                255 => 3,
                256 => 4,
                300 => 5,
                l if l > 300 => 6,
                _ => 0,
            })
            .collect();
        h = hash_bytes(mix(h), &lens);
        for (which, sizes) in [&p.pipes[d].write_sizes, &p.pipes[d].read_sizes].into_iter().enumerate() {
            let mut mask = 0u32;
            let mut pos = 0usize;
            for s in sizes {
                pos = pos.saturating_add(*s);
                if pos >= e.len() {
                    break;
                }
                let c = class_of(pos, &bounds);
                mask |= 1 << c;
                if c != 4 {
                    nontrivial = true;
                }
            }
            h = mix(h ^ ((mask as u64) << (8 * which)));
        }
        let pend = (!p.pipes[d].write_pending.is_empty() as u64) | (!p.pipes[d].read_pending.is_empty() as u64) << 1 | (!p.pipes[d].flush_pending.is_empty() as u64) << 2;
        if pend != 0 && !e.is_empty() {
            nontrivial = true;
        }
        h = mix(h ^ pend ^ ((p.pipes[d].capacity.min(1) as u64) << 4) ^ ((p.pipes[d].latency_ns.min(1)) << 5));
        if d == p.cut_dir {
            if let Some((off, kind)) = p.pipes[d].cut {
                let c = if off as usize >= e.len() { 9 } else { class_of(off as usize, &bounds) };
                if c != 9 {
                    nontrivial = true;
                }
                h = mix(h ^ ((c as u64) << 8) ^ ((kind == CutKind::Reset) as u64) << 16);
            }
        }
    }
    h = mix(h ^ p.variant as u64 ^ (p.cut_dir as u64) << 3);
    (h, nontrivial)
}

async fn scenario(plan: Plan) {
    let (ca, cb) = net::tcp_pair(plan.pipes[0].clone(), plan.pipes[1].clone());
    let conn = ca.conn_id();
    let peer_b: SocketAddr = "10.0.0.2:53".parse().unwrap();
    let peer_a: SocketAddr = "10.0.0.1:50001".parse().unwrap();
    let (sa, ha) = TcpStream::from_stream(ca, peer_b);
    let (sb, hb) = TcpStream::from_stream(cb, peer_a);
    let cd = plan.cut_dir;
    // receiver of direction d is endpoint 1-d
    let streams = [sa, sb];
    let handles = [ha, hb];
    let peers = [peer_b, peer_a];
    let received: [Rc<RefCell<Vec<Item>>>; 2] = [Rc::new(RefCell::new(Vec::new())), Rc::new(RefCell::new(Vec::new()))];
    let mut joins = Vec::new();
    // messages handed to each endpoint's handle so far
    let enqueued: [Rc<std::cell::Cell<usize>>; 2] = [Rc::new(std::cell::Cell::new(0)), Rc::new(std::cell::Cell::new(0))];
    for (ep, stream) in streams.into_iter().enumerate() {
        // endpoint `ep` receives direction 1-ep
        let dir = 1 - ep;
        let variant = if dir == cd { plan.variant } else { 0 };
        let rec = received[dir].clone();
        let enq = enqueued[ep].clone();
        let (_, own_bounds) = frames(&plan.msgs[ep]);
        joins.push(exec::spawn(&format!("ep{ep}"), async move {
            let mut s = wrap(stream, variant);
            loop {
                match s.next().await {
                    Some(Ok(b)) => {
                        exec::log(&format!("ep{ep} got msg len={}", b.len()));
                        rec.borrow_mut().push(Item::Msg(b));
                    }
                    Some(Err(e)) => {
                        exec::log(&format!("ep{ep} got err {e}"));
                        rec.borrow_mut().push(Item::Err(e));
                        break;
                    }
                    None => {
                        exec::log(&format!("ep{ep} got end"));
                        rec.borrow_mut().push(Item::End);
                        // a clean end tells the user that the connection is finished: every message
                        // this endpoint accepted for sending before that moment must be on the wire
                        // whole (the user drops the stream now; a frame cut short here is a
                        // truncated message that no chunking justifies)
                        let on_wire = net::tcp_captured(conn, ep).len();
                        let want = own_bounds[enq.get()];
                        if on_wire != want {
                            exec::violate("C17.truncated-at-clean-end", "", format!("endpoint {ep}: its stream ended cleanly while {} message(s) had been accepted for sending ({} bytes framed) but only {} bytes are on the wire", enq.get(), want, on_wire));
                        } else if want > 0 {
                            exec::count("probe.clean_end_with_own_traffic_flushed");
                        }
                        break;
                    }
                }
            }
            // keep the transport alive: a finished receiver must not tear down the other
            // direction (the property is about framing, not about half-close policy)
            std::future::pending::<()>().await;
            drop(s);
        }));
    }
    for (ep, mut h) in handles.into_iter().enumerate() {
        let msgs = plan.msgs[ep].clone();
        let gaps = plan.gaps[ep].clone();
        let peer = peers[ep];
        let drop_h = plan.drop_handle[ep];
        let enq = enqueued[ep].clone();
        exec::spawn(&format!("send{ep}"), async move {
            for (m, g) in msgs.iter().zip(gaps.iter()) {
                for _ in 0..*g {
                    exec::yield_now().await;
                }
                if let Err(e) = h.send(SerialMessage::new(m.bytes(), peer)) {
                    exec::violate("C17.harness", "", format!("handle refused message: {e}"));
                }
                enq.set(enq.get() + 1);
            }
            if !drop_h {
                std::future::pending::<()>().await;
            }
            drop(h);
        });
    }

    // wait for the cut direction's receiver to finish.  The endpoint that receives the cut
    // direction stops polling its stream once it has ended (as every real user does), so the
    // *other* direction is only required to deliver the frames that made it onto the wire.
    let deadline_ns = 120 * net::SEC;
    let (_, other_bounds) = frames(&plan.msgs[1 - cd]);
    loop {
        let cut_done = received[cd].borrow().last().map(|i| !matches!(i, Item::Msg(_))).unwrap_or(false);
        let on_wire = net::tcp_captured(conn, 1 - cd).len();
        let want_other = other_bounds[1..].iter().filter(|b| **b <= on_wire).count();
        let other_done = received[1 - cd].borrow().len() >= want_other;
        if cut_done && other_done {
            break;
        }
        if exec::now_ns() > deadline_ns {
            exec::violate(
                "C17.stall",
                "",
                format!("after {} simulated seconds: cut direction finished={cut_done}, other direction delivered {}/{} frames that are completely on the wire", deadline_ns / net::SEC, received[1 - cd].borrow().len(), want_other),
            );
            return;
        }
        exec::sleep_ns(7 * MS).await;
    }
    // let things settle, so that anything yielded *after* the end shows up
    exec::sleep_ns(50 * MS).await;

    for d in 0..2 {
        let (e, bounds) = frames(&plan.msgs[d]);
        let cap = net::tcp_captured(conn, d);
        if cap.len() > e.len() || cap[..] != e[..cap.len()] {
            let at = cap.iter().zip(e.iter()).position(|(a, b)| a != b).unwrap_or(e.len().min(cap.len()));
            exec::violate("C17.wire", "", format!("direction {d}: bytes on the wire are not be16(len)||msg in order (first difference at offset {at}, wire {} bytes, expected {})", cap.len(), e.len()));
            return;
        }
        let got = received[d].borrow().clone();
        let mut expect: Vec<Item> = Vec::new();
        if d == cd {
            let (off, kind) = plan.pipes[d].cut.unwrap();
            let off = off as usize;
            for (i, m) in plan.msgs[d].iter().enumerate() {
                if bounds[i + 1] <= off {
                    expect.push(Item::Msg(m.bytes()));
                }
            }
            let at_boundary = bounds.contains(&off);
            if kind == CutKind::Eof && at_boundary {
                expect.push(Item::End);
            } else {
                expect.push(Item::Err(String::new()));
            }
        } else {
            for (i, m) in plan.msgs[d].iter().enumerate() {
                if bounds[i + 1] <= cap.len() {
                    expect.push(Item::Msg(m.bytes()));
                }
            }
        }
        let same = got.len() == expect.len()
            && got.iter().zip(expect.iter()).all(|(g, x)| match (g, x) {
                (Item::Msg(a), Item::Msg(b)) => a == b,
                (Item::Err(_), Item::Err(_)) => true,
                (Item::End, Item::End) => true,
                _ => false,
            });
        if !same {
            let show = |v: &Vec<Item>| {
                v.iter()
                    .map(|i| match i {
                        Item::Msg(b) => format!("msg[{}:{:x}]", b.len(), hash_bytes(0, b) & 0xffff),
                        Item::Err(e) => format!("err({e})"),
                        Item::End => "end".to_string(),
                    })
                    .collect::<Vec<_>>()
                    .join(",")
            };
            // classify
            let msgs_got: Vec<&Vec<u8>> = got.iter().filter_map(|i| if let Item::Msg(b) = i { Some(b) } else { None }).collect();
            let msgs_exp: Vec<&Vec<u8>> = expect.iter().filter_map(|i| if let Item::Msg(b) = i { Some(b) } else { None }).collect();
            let inv = if msgs_got != msgs_exp { "C17.items" } else { "C17.end" };
            exec::violate(inv, "", format!("direction {d}: yielded [{}] expected [{}]", show(&got), show(&expect)));
            return;
        }
        if d == cd {
            match got.last() {
                Some(Item::End) => exec::count("probe.clean_end"),
                Some(Item::Err(_)) => exec::count("probe.error_end"),
                _ => {}
            }
        }
    }
    exec::count_n("probe.messages_delivered", (received[0].borrow().len() + received[1].borrow().len()) as u64);
    drop(joins);
}

pub fn def() -> CheckDef {
    CheckDef { id: "C17", level: "exploration", parts: vec![Box::new(Framing)] }
}
