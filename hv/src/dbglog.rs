//! Debugging aid only (HV_TRACING=1 with `--replay <file> --trace`): prints hickory's `tracing`
//! events to stderr.  Never installed during a check run; draws nothing from the simulator.

use std::fmt::Write;

use tracing::field::{Field, Visit};
use tracing::span::{Attributes, Id, Record};
use tracing::{Event, Metadata, Subscriber};

struct V(String);

impl Visit for V {
    fn record_debug(&mut self, field: &Field, value: &dyn std::fmt::Debug) {
        if field.name() == "message" {
            let _ = write!(self.0, "{value:?} ");
        } else {
            let _ = write!(self.0, "{}={value:?} ", field.name());
        }
    }
}

struct Printer;

impl Subscriber for Printer {
    fn enabled(&self, m: &Metadata<'_>) -> bool {
        m.target().starts_with("hickory")
    }
    fn new_span(&self, _: &Attributes<'_>) -> Id {
        Id::from_u64(1)
    }
    fn record(&self, _: &Id, _: &Record<'_>) {}
    fn record_follows_from(&self, _: &Id, _: &Id) {}
    fn event(&self, e: &Event<'_>) {
        let mut v = V(String::new());
        e.record(&mut v);
        eprintln!("    [{} {}] {}", e.metadata().level(), e.metadata().target(), v.0);
    }
    fn enter(&self, _: &Id) {}
    fn exit(&self, _: &Id) {}
}

pub fn install() {
    let _ = tracing::subscriber::set_global_default(Printer);
}
