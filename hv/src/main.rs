//! hv — driver for the deterministic-simulation checks of hickory-dns.
//!
//!   hv <ID> quick|thorough            run the check, write evidence/<ID>.json
//!   hv <ID> --replay <file> [--trace] re-execute one recorded plan in a fresh process
//!   hv <ID> --seed-plan <idx> [part]  print the materialised plan of one run
//!   hv selftest determinism [ID]      event-log hashes identical across process arrangements

use std::path::Path;
use std::sync::OnceLock;

use hsim::supervisor::{self, BatchOpts, CheckDef, Tier};

mod dbglog;
mod fixtures;
mod rigs;

hsim::define_interposers!();

pub const DEFAULT_SEED: u64 = 20260923;

fn registry() -> &'static Vec<CheckDef> {
    static R: OnceLock<Vec<CheckDef>> = OnceLock::new();
    R.get_or_init(rigs::all)
}

fn env_u64(k: &str) -> Option<u64> {
    std::env::var(k).ok().and_then(|s| s.trim().parse::<u64>().ok())
}

fn main() {
    let args: Vec<String> = std::env::args().skip(1).collect();
    if args.is_empty() {
        eprintln!("usage: hv <ID> quick|thorough | hv <ID> --replay <file> | hv selftest determinism [ID]");
        std::process::exit(2);
    }
    let base_seed = env_u64("VERIF_SEED").unwrap_or(DEFAULT_SEED);
    let workers = env_u64("VERIF_WORKERS").map(|w| w as usize).unwrap_or(16);
    if args[0] == "gen-fixtures" {
        fixtures::generate();
        return;
    }
    if args[0] == "selftest" {
        let which = args.get(2).cloned();
        let den = env_u64("VERIF_SELFTEST_DEN").unwrap_or(4);
        let mut code = 0;
        for def in registry().iter() {
            if which.as_deref().map(|w| w == def.id).unwrap_or(true) {
                let c = supervisor::selftest_determinism(def, base_seed, den);
                code = code.max(c);
            }
        }
        std::process::exit(code);
    }
    let Some(def) = registry().iter().find(|d| d.id == args[0]) else {
        eprintln!("unknown check {}", args[0]);
        std::process::exit(2);
    };
    match args.get(1).map(|s| s.as_str()) {
        Some("--replay") => {
            let p = args.get(2).expect("replay path");
            let trace = args.iter().any(|a| a == "--trace");
            if trace && std::env::var("HV_TRACING").is_ok() {
                dbglog::install();
            }
            std::process::exit(supervisor::replay(def, Path::new(p), trace));
        }
        Some("--bench") => {
            // in-process, no fork: timing and profiling aid only
            let part_name = args.get(2).cloned().unwrap_or_default();
            let n: u64 = args.get(3).and_then(|s| s.parse().ok()).unwrap_or(100);
            for (pi, p) in def.parts.iter().enumerate() {
                if p.name() == part_name {
                    let t0 = std::time::Instant::now();
                    let mut steps = 0;
                    let mut viol = 0;
                    let mut by_key: std::collections::BTreeMap<String, (u64, String)> = Default::default();
                    for idx in 0..n {
                        let seed = supervisor::run_seed(base_seed, pi, idx);
                        let plan = p.gen(seed, Tier::Quick);
                        let rep = match std::panic::catch_unwind(std::panic::AssertUnwindSafe(|| p.run(&plan, false))) {
                            Ok(r) => r,
                            Err(_) => {
                                hsim::interpose::deactivate();
                                hsim::exec::abandon();
                                let e = by_key.entry("PANIC".into()).or_insert((0, format!("idx {idx}")));
                                e.0 += 1;
                                continue;
                            }
                        };
                        steps += rep.steps;
                        if let Some(v) = rep.violation {
                            viol += 1;
                            let e = by_key.entry(format!("{}/{}", v.invariant, v.shape)).or_insert((0, format!("idx {idx}: {}", v.detail)));
                            e.0 += 1;
                        }
                    }
                    for (k, (c, d)) in &by_key {
                        println!("{c:>6}  {k}\n        e.g. {d}");
                    }
                    println!("{n} runs, {steps} steps, {viol} violations, {:.3} ms/run", t0.elapsed().as_secs_f64() * 1000.0 / n as f64);
                }
            }
        }
        Some("--seed-plan") => {
            let idx: u64 = args.get(2).and_then(|s| s.parse().ok()).unwrap_or(0);
            let part_name = args.get(3).cloned();
            for (pi, p) in def.parts.iter().enumerate() {
                if part_name.as_deref().map(|n| n == p.name()).unwrap_or(true) {
                    let seed = supervisor::run_seed(base_seed, pi, idx);
                    println!("{}", serde_json::to_string_pretty(&p.gen(seed, Tier::Quick)).unwrap());
                }
            }
        }
        Some(t @ ("quick" | "thorough")) => {
            let tier = if t == "quick" { Tier::Quick } else { Tier::Thorough };
            let o = BatchOpts {
                tier,
                base_seed,
                workers,
                scale_num: env_u64("VERIF_SCALE_NUM").unwrap_or(1),
                scale_den: env_u64("VERIF_SCALE_DEN").unwrap_or(1),
                want_hashes: false,
                block_override: None,
                reverse: false,
                only_part: std::env::var("VERIF_PART").ok(),
                write_evidence: std::env::var("VERIF_PART").is_err(),
            };
            let out = supervisor::run_batch(def, &o);
            std::process::exit(out.exit_code);
        }
        _ => {
            eprintln!("bad arguments");
            std::process::exit(2);
        }
    }
}
