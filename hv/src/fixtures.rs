//! Fixed key fixtures (ring's key generation uses a raw getrandom syscall that the simulator does
//! not intercept, so keys are generated once, here, and committed under /verif/fixtures).

use std::path::PathBuf;

use hickory_proto::dnssec::crypto::{EcdsaSigningKey, Ed25519SigningKey, RsaSigningKey};
use hickory_proto::dnssec::rdata::DNSKEY;
use hickory_proto::dnssec::{Algorithm, SigningKey};
use rustls_pki_types::PrivatePkcs8KeyDer;

pub fn dir() -> PathBuf {
    hsim::supervisor::verif_dir().join("fixtures")
}

pub fn load(name: &str) -> Vec<u8> {
    std::fs::read(dir().join(name)).unwrap_or_else(|e| panic!("fixture {name}: {e}"))
}

pub fn ed25519(name: &str) -> Box<dyn SigningKey> {
    Box::new(Ed25519SigningKey::from_pkcs8(&PrivatePkcs8KeyDer::from(load(name))).expect("ed25519 fixture"))
}

pub fn ecdsa_p256(name: &str) -> Box<dyn SigningKey> {
    Box::new(EcdsaSigningKey::from_pkcs8(&PrivatePkcs8KeyDer::from(load(name)), Algorithm::ECDSAP256SHA256).expect("ecdsa fixture"))
}

pub fn rsa(name: &str) -> Box<dyn SigningKey> {
    Box::new(RsaSigningKey::from_pkcs8(&PrivatePkcs8KeyDer::from(load(name)), Algorithm::RSASHA256).expect("rsa fixture"))
}

pub fn key_tag(k: &dyn SigningKey) -> u16 {
    DNSKEY::from_key(&k.to_public_key().unwrap()).calculate_key_tag().unwrap()
}

pub fn generate() {
    let d = dir();
    std::fs::create_dir_all(&d).unwrap();
    for i in 0..6 {
        let p = d.join(format!("ed25519-{i}.pk8"));
        if !p.exists() {
            std::fs::write(&p, Ed25519SigningKey::generate_pkcs8().unwrap().secret_pkcs8_der()).unwrap();
        }
    }
    for i in 0..2 {
        let p = d.join(format!("ecdsa-p256-{i}.pk8"));
        if !p.exists() {
            std::fs::write(&p, EcdsaSigningKey::generate_pkcs8(Algorithm::ECDSAP256SHA256).unwrap().secret_pkcs8_der()).unwrap();
        }
    }
    // a pair of Ed25519 keys with the same key tag
    if !d.join("ed25519-coll-a.pk8").exists() {
        let mut seen: std::collections::BTreeMap<u16, Vec<u8>> = Default::default();
        for n in 0..20000 {
            let der = Ed25519SigningKey::generate_pkcs8().unwrap().secret_pkcs8_der().to_vec();
            let k = Ed25519SigningKey::from_pkcs8(&PrivatePkcs8KeyDer::from(der.clone())).unwrap();
            let tag = key_tag(&k);
            if let Some(other) = seen.get(&tag) {
                std::fs::write(d.join("ed25519-coll-a.pk8"), other).unwrap();
                std::fs::write(d.join("ed25519-coll-b.pk8"), &der).unwrap();
                println!("key tag collision after {n} keys: tag {tag}");
                break;
            }
            seen.insert(tag, der);
        }
    }
    println!("fixtures in {}", d.display());
}
