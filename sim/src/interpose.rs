//! libc interposition: `clock_gettime` and `getrandom` are defined by the rig *binary* (through
//! `define_interposers!`), so every clock read and every entropy request made by std, rand,
//! moka, time-rs, tokio, hickory … on a thread that is inside a simulated run is answered by the
//! simulator.  Outside a run the raw syscall is issued.

use std::cell::Cell;

/// CLOCK_MONOTONIC value at simulated time zero (large, so `Instant - Duration` never underflows).
pub const MONO_BASE_NS: u64 = 1_000_000 * 1_000_000_000;
/// Default CLOCK_REALTIME at simulated time zero: 2026-01-01T00:00:00Z.
pub const DEFAULT_EPOCH_S: u64 = 1_767_225_600;

thread_local! {
    pub static ACTIVE: Cell<bool> = const { Cell::new(false) };
    pub static NOW_NS: Cell<u64> = const { Cell::new(0) };
    pub static EPOCH_NS: Cell<u64> = const { Cell::new(DEFAULT_EPOCH_S * 1_000_000_000) };
    /// wall clock offset in ns (fault knob: wall-clock jumps)
    pub static WALL_OFF_NS: Cell<i64> = const { Cell::new(0) };
    pub static ENT_STATE: Cell<u64> = const { Cell::new(0) };
    /// 0 = full entropy; n>0 = every byte drawn is reduced modulo n (collision forcing)
    pub static ENT_MODE: Cell<u8> = const { Cell::new(0) };
    pub static CLOCK_READS: Cell<u64> = const { Cell::new(0) };
    pub static ENT_BYTES: Cell<u64> = const { Cell::new(0) };
}

pub fn activate(entropy_seed: u64, entropy_mode: u8, epoch_s: u64) {
    NOW_NS.with(|c| c.set(0));
    EPOCH_NS.with(|c| c.set(epoch_s * 1_000_000_000));
    WALL_OFF_NS.with(|c| c.set(0));
    ENT_STATE.with(|c| c.set(crate::rng::mix(entropy_seed)));
    ENT_MODE.with(|c| c.set(entropy_mode));
    CLOCK_READS.with(|c| c.set(0));
    ENT_BYTES.with(|c| c.set(0));
    ACTIVE.with(|c| c.set(true));
}

pub fn deactivate() {
    ACTIVE.with(|c| c.set(false));
}

pub fn is_active() -> bool {
    ACTIVE.with(|c| c.get())
}

pub fn set_now_ns(ns: u64) {
    NOW_NS.with(|c| c.set(ns));
}

pub fn now_ns() -> u64 {
    NOW_NS.with(|c| c.get())
}

pub fn wall_offset_ns() -> i64 {
    WALL_OFF_NS.with(|c| c.get())
}

pub fn set_wall_offset_ns(off: i64) {
    WALL_OFF_NS.with(|c| c.set(off));
}

pub fn set_entropy_mode(m: u8) {
    ENT_MODE.with(|c| c.set(m));
}

/// Simulated unix time in whole seconds (what `SystemTime::now()` reports inside a run).
pub fn wall_secs() -> u64 {
    let ns = EPOCH_NS.with(|c| c.get()) as i128 + now_ns() as i128 + wall_offset_ns() as i128;
    (ns.max(0) / 1_000_000_000) as u64
}

#[doc(hidden)]
pub fn sim_clock(clk: i32) -> Option<(i64, i64)> {
    if !is_active() {
        return None;
    }
    CLOCK_READS.with(|c| c.set(c.get() + 1));
    let now = now_ns();
    let ns: i128 = match clk {
        libc::CLOCK_REALTIME | libc::CLOCK_REALTIME_COARSE | libc::CLOCK_TAI => {
            EPOCH_NS.with(|c| c.get()) as i128 + now as i128 + wall_offset_ns() as i128
        }
        libc::CLOCK_MONOTONIC
        | libc::CLOCK_MONOTONIC_RAW
        | libc::CLOCK_MONOTONIC_COARSE
        | libc::CLOCK_BOOTTIME => MONO_BASE_NS as i128 + now as i128,
        _ => return None,
    };
    let ns = ns.max(0);
    Some(((ns / 1_000_000_000) as i64, (ns % 1_000_000_000) as i64))
}

#[doc(hidden)]
pub fn sim_entropy(buf: &mut [u8]) -> bool {
    if !is_active() {
        return false;
    }
    ENT_BYTES.with(|c| c.set(c.get() + buf.len() as u64));
    let mode = ENT_MODE.with(|c| c.get());
    let mut s = ENT_STATE.with(|c| c.get());
    for chunk in buf.chunks_mut(8) {
        s = s.wrapping_add(0x9E37_79B9_7F4A_7C15);
        let v = crate::rng::mix(s).to_le_bytes();
        for (d, b) in chunk.iter_mut().zip(v.iter()) {
            *d = if mode == 0 { *b } else { *b % mode };
        }
    }
    ENT_STATE.with(|c| c.set(s));
    true
}

/// Must be invoked exactly once, in the **binary** crate, so the definitions are part of the
/// executable's own objects and the static linker resolves std's references to them.
#[macro_export]
macro_rules! define_interposers {
    () => {
        #[no_mangle]
        pub unsafe extern "C" fn clock_gettime(
            clk: ::libc::clockid_t,
            ts: *mut ::libc::timespec,
        ) -> ::libc::c_int {
            if let Some((s, ns)) = $crate::interpose::sim_clock(clk as i32) {
                if !ts.is_null() {
                    (*ts).tv_sec = s as _;
                    (*ts).tv_nsec = ns as _;
                }
                return 0;
            }
            ::libc::syscall(::libc::SYS_clock_gettime, clk, ts) as ::libc::c_int
        }

        #[no_mangle]
        pub unsafe extern "C" fn getrandom(
            buf: *mut ::libc::c_void,
            len: ::libc::size_t,
            flags: ::libc::c_uint,
        ) -> ::libc::ssize_t {
            if len > 0 && !buf.is_null() {
                let slice = ::std::slice::from_raw_parts_mut(buf as *mut u8, len);
                if $crate::interpose::sim_entropy(slice) {
                    return len as ::libc::ssize_t;
                }
            }
            ::libc::syscall(::libc::SYS_getrandom, buf, len, flags) as ::libc::ssize_t
        }
    };
}
