//! Simulated network: UDP datagrams and TCP byte pipes as events of the simulator, with a fault
//! layer addressed by stable coordinates, plus the `RuntimeProvider` that plugs the real hickory
//! client/resolver/recursor stack onto it.

use std::collections::{BTreeMap, BTreeSet, VecDeque};
use std::future::Future;
use std::io;
use std::net::{IpAddr, Ipv4Addr, SocketAddr};
use std::pin::Pin;
use std::rc::Rc;
use std::cell::RefCell;
use std::task::{Context, Poll, Waker};
use std::time::Duration;

use async_trait::async_trait;
use futures_io::{AsyncRead, AsyncWrite};
use hickory_net::runtime::{DnsTcpStream, DnsUdpSocket, RuntimeProvider, Spawn, Time};
use serde::{Deserialize, Serialize};

use crate::exec::{self, with};
use crate::interpose;

pub const MS: u64 = 1_000_000;
pub const SEC: u64 = 1_000_000_000;

// ------------------------------------------------------------------------------------------
// time

thread_local! {
    static SKEW_B_S: std::cell::Cell<i64> = const { std::cell::Cell::new(0) };
}

/// seconds added to the unix time reported by `SimTimeB::current_time()` (second party's clock)
pub fn set_skew_b(s: i64) {
    SKEW_B_S.with(|c| c.set(s));
}

#[derive(Clone, Copy, Debug, Default)]
pub struct SimTime;

#[async_trait]
impl Time for SimTime {
    async fn delay_for(duration: Duration) {
        exec::sleep(duration).await
    }
    async fn timeout<F: 'static + Future + Send>(duration: Duration, future: F) -> Result<F::Output, io::Error> {
        exec::timeout(duration, future)
            .await
            .map_err(|_| io::Error::new(io::ErrorKind::TimedOut, "future timed out"))
    }
    fn current_time() -> u64 {
        interpose::wall_secs()
    }
}

/// Same timers, but a wall clock skewed against `SimTime` (the "other party").
#[derive(Clone, Copy, Debug, Default)]
pub struct SimTimeB;

#[async_trait]
impl Time for SimTimeB {
    async fn delay_for(duration: Duration) {
        exec::sleep(duration).await
    }
    async fn timeout<F: 'static + Future + Send>(duration: Duration, future: F) -> Result<F::Output, io::Error> {
        exec::timeout(duration, future)
            .await
            .map_err(|_| io::Error::new(io::ErrorKind::TimedOut, "future timed out"))
    }
    fn current_time() -> u64 {
        (interpose::wall_secs() as i64 + SKEW_B_S.with(|c| c.get())).max(0) as u64
    }
}

// ------------------------------------------------------------------------------------------
// spawn

#[derive(Clone, Copy, Debug, Default)]
pub struct SimHandle;

impl Spawn for SimHandle {
    fn spawn_bg(&mut self, future: impl Future<Output = ()> + Send + 'static) {
        let n = with(|st| {
            st.count("tasks.spawn_bg", 1);
            st.next_seq()
        });
        let _ = exec::spawn(&format!("bg{n}"), future);
    }
}

// ------------------------------------------------------------------------------------------
// network state

#[derive(Clone, Debug)]
pub struct Dgram {
    pub src: SocketAddr,
    pub dst: SocketAddr,
    /// n-th datagram (0-based) sent from src ip to dst ip in this run
    pub nth: u64,
    pub bytes: Vec<u8>,
}

/// what the fault layer decides for one datagram: zero or more deliveries
pub struct Delivery {
    pub delay_ns: u64,
    pub bytes: Vec<u8>,
}

pub type UdpFilter = Rc<RefCell<dyn FnMut(&Dgram) -> Option<Vec<Delivery>>>>;
pub type UdpNode = Rc<RefCell<dyn FnMut(&Dgram) -> Vec<UdpOut>>>;
pub type TcpAcceptor = Rc<RefCell<dyn FnMut(SimTcp, SocketAddr)>>;
pub type SendFault = Rc<RefCell<dyn FnMut(SocketAddr, SocketAddr) -> Option<io::ErrorKind>>>;
pub type ConnectPolicy = Rc<RefCell<dyn FnMut(IpAddr, SocketAddr, u64) -> ConnectVerdict>>;

/// reply produced by a scripted UDP node
pub struct UdpOut {
    pub delay_ns: u64,
    pub from: SocketAddr,
    pub to: SocketAddr,
    pub bytes: Vec<u8>,
}

#[derive(Clone, Debug)]
pub enum ConnectVerdict {
    /// connection established after `rtt_ns`; the pipes get this plan
    Accept { rtt_ns: u64, c2s: PipePlan, s2c: PipePlan },
    Refuse { after_ns: u64 },
    Blackhole,
}

struct UdpSock {
    q: VecDeque<(Vec<u8>, SocketAddr)>,
    waker: Option<Waker>,
    recvs: u64,
    bind_ix: usize,
}

#[derive(Clone, Copy, Debug, PartialEq, Eq, Serialize, Deserialize)]
pub enum CutKind {
    Eof,
    Reset,
}

#[derive(Clone, Debug, Default, Serialize, Deserialize)]
pub struct PipePlan {
    /// i-th successful write accepts at most this many bytes (past the end: everything)
    #[serde(default)]
    pub write_sizes: Vec<usize>,
    /// i-th successful read returns at most this many bytes (past the end: everything)
    #[serde(default)]
    pub read_sizes: Vec<usize>,
    /// 0-based indices of poll_write / poll_read / poll_flush calls that return Pending
    #[serde(default)]
    pub write_pending: Vec<u64>,
    #[serde(default)]
    pub read_pending: Vec<u64>,
    #[serde(default)]
    pub flush_pending: Vec<u64>,
    /// delay before the waker of an injected Pending fires
    #[serde(default)]
    pub pending_wake_ns: u64,
    /// the pipe is cut once this many bytes have been written into it
    #[serde(default)]
    pub cut: Option<(u64, CutKind)>,
    /// one-way latency (0 = bytes are readable immediately)
    #[serde(default)]
    pub latency_ns: u64,
    /// writer sees Pending while this many bytes are unread (0 = unbounded)
    #[serde(default)]
    pub capacity: usize,
}

struct Pipe {
    buf: VecDeque<u8>,
    inflight: u64,
    write_closed: bool,
    cut_done: Option<CutKind>,
    rd_waker: Option<Waker>,
    wr_waker: Option<Waker>,
    written: u64,
    read: u64,
    rd_calls: u64,
    wr_calls: u64,
    fl_calls: u64,
    rd_ok: usize,
    wr_ok: usize,
    plan: PipePlan,
    captured: Vec<u8>,
    reader_dropped: bool,
}

impl Pipe {
    fn new(plan: PipePlan) -> Self {
        Self {
            buf: VecDeque::new(),
            inflight: 0,
            write_closed: false,
            cut_done: match plan.cut {
                Some((0, k)) => Some(k),
                _ => None,
            },
            rd_waker: None,
            wr_waker: None,
            written: 0,
            read: 0,
            rd_calls: 0,
            wr_calls: 0,
            fl_calls: 0,
            rd_ok: 0,
            wr_ok: 0,
            plan,
            captured: Vec::new(),
            reader_dropped: false,
        }
    }
}

struct Conn {
    /// [client→server, server→client]
    pipes: [Pipe; 2],
    client: SocketAddr,
    server: SocketAddr,
}

#[derive(Default)]
pub struct Net {
    udp_socks: BTreeMap<SocketAddr, UdpSock>,
    udp_nodes: BTreeMap<SocketAddr, UdpNode>,
    tcp_listeners: BTreeMap<SocketAddr, TcpAcceptor>,
    conns: BTreeMap<u64, Conn>,
    next_conn: u64,
    next_port: u16,
    link_count: BTreeMap<(IpAddr, IpAddr), u64>,
    connect_count: BTreeMap<(IpAddr, SocketAddr), u64>,
    udp_filter: Option<UdpFilter>,
    send_fault: Option<SendFault>,
    connect_policy: Option<ConnectPolicy>,
    partitioned: BTreeSet<IpAddr>,
    pub base_latency_ns: u64,
    pub jitter_ns: u64,
    /// every datagram handed to the network, in send order (observation for oracles)
    pub sent_log: Vec<Dgram>,
    pub keep_sent_log: bool,
    /// leave the payload hash out of the event log (for rigs whose payloads carry randomised
    /// ECDSA signatures made by ring's own entropy source: bytes differ, behaviour does not)
    pub no_payload_hash: bool,
    /// every socket ever bound by real code: (local address, successful recv_from calls)
    pub udp_bind_log: Vec<(SocketAddr, u64)>,
}

fn net<R>(f: impl FnOnce(&mut Net) -> R) -> R {
    with(|st| f(st.ext::<Net>()))
}

pub fn configure(base_latency_ns: u64, jitter_ns: u64) {
    net(|n| {
        n.base_latency_ns = base_latency_ns;
        n.jitter_ns = jitter_ns;
    })
}

pub fn keep_sent_log(on: bool) {
    net(|n| n.keep_sent_log = on)
}

pub fn log_payload_hash(on: bool) {
    net(|n| n.no_payload_hash = !on)
}

pub fn udp_bind_log() -> Vec<(SocketAddr, u64)> {
    net(|n| n.udp_bind_log.clone())
}

pub fn take_sent_log() -> Vec<Dgram> {
    net(|n| std::mem::take(&mut n.sent_log))
}

pub fn sent_log_snapshot() -> Vec<Dgram> {
    net(|n| n.sent_log.clone())
}

pub fn set_udp_filter(f: impl FnMut(&Dgram) -> Option<Vec<Delivery>> + 'static) {
    net(|n| n.udp_filter = Some(Rc::new(RefCell::new(f))))
}

pub fn set_send_fault(f: impl FnMut(SocketAddr, SocketAddr) -> Option<io::ErrorKind> + 'static) {
    net(|n| n.send_fault = Some(Rc::new(RefCell::new(f))))
}

pub fn set_connect_policy(f: impl FnMut(IpAddr, SocketAddr, u64) -> ConnectVerdict + 'static) {
    net(|n| n.connect_policy = Some(Rc::new(RefCell::new(f))))
}

pub fn set_partitioned(ip: IpAddr, on: bool) {
    net(|n| {
        if on {
            n.partitioned.insert(ip);
        } else {
            n.partitioned.remove(&ip);
        }
    });
    exec::log(&format!("partition {ip} {on}"));
}

/// scripted UDP node listening on `addr`
pub fn udp_node(addr: SocketAddr, f: impl FnMut(&Dgram) -> Vec<UdpOut> + 'static) {
    net(|n| {
        n.udp_nodes.insert(addr, Rc::new(RefCell::new(f)));
    })
}

/// scripted TCP listener on `addr`
pub fn tcp_listen(addr: SocketAddr, f: impl FnMut(SimTcp, SocketAddr) + 'static) {
    net(|n| {
        n.tcp_listeners.insert(addr, Rc::new(RefCell::new(f)));
    })
}

pub fn default_latency() -> u64 {
    let (b, j) = net(|n| (n.base_latency_ns, n.jitter_ns));
    b + if j > 0 { exec::lat_below(j + 1) } else { 0 }
}

/// hand a datagram to the network (fault layer applies)
pub fn udp_send(src: SocketAddr, dst: SocketAddr, bytes: Vec<u8>) {
    let (dg, filter, part, nohash) = net(|n| {
        let c = n.link_count.entry((src.ip(), dst.ip())).or_insert(0);
        let nth = *c;
        *c += 1;
        let dg = Dgram { src, dst, nth, bytes };
        if n.keep_sent_log {
            n.sent_log.push(dg.clone());
        }
        let part = n.partitioned.contains(&src.ip()) || n.partitioned.contains(&dst.ip());
        (dg, n.udp_filter.clone(), part, n.no_payload_hash)
    });
    with(|st| {
        st.count("net.udp.sent", 1);
        st.log(&format!("udp send {}→{} #{} len={} h={:x}", dg.src, dg.dst, dg.nth, dg.bytes.len(), if nohash { 0 } else { crate::rng::hash_bytes(0, &dg.bytes) }));
    });
    if part {
        exec::count("fault.partition_drop");
        return;
    }
    let verdict = filter.and_then(|f| (f.borrow_mut())(&dg));
    let deliveries = match verdict {
        Some(v) => v,
        None => vec![Delivery { delay_ns: default_latency(), bytes: dg.bytes.clone() }],
    };
    for d in deliveries {
        let (src, dst) = (dg.src, dg.dst);
        exec::call_after(d.delay_ns, move || udp_deliver(src, dst, d.bytes));
    }
}

/// put a datagram on the wire bypassing the fault layer (used for forgeries)
pub fn udp_inject(src: SocketAddr, dst: SocketAddr, bytes: Vec<u8>, delay_ns: u64) {
    exec::call_after(delay_ns, move || udp_deliver(src, dst, bytes));
}

fn udp_deliver(src: SocketAddr, dst: SocketAddr, bytes: Vec<u8>) {
    enum Target {
        Sock(Option<Waker>),
        Node(UdpNode),
        None,
    }
    let t = with(|st| {
        st.log(&format!("udp deliver {src}→{dst} len={}", bytes.len()));
        st.ilog(&format!("U{}>{}", src.ip(), dst.ip()));
        let n = st.ext::<Net>();
        if let Some(s) = n.udp_socks.get_mut(&dst) {
            s.q.push_back((bytes.clone(), src));
            Target::Sock(s.waker.take())
        } else if let Some(node) = n.udp_nodes.get(&dst) {
            Target::Node(node.clone())
        } else {
            Target::None
        }
    });
    match t {
        Target::Sock(w) => {
            exec::count("net.udp.delivered");
            if let Some(w) = w {
                w.wake();
            }
        }
        Target::Node(node) => {
            exec::count("net.udp.delivered");
            let dg = Dgram { src, dst, nth: 0, bytes };
            let outs = (node.borrow_mut())(&dg);
            for o in outs {
                let (from, to, b) = (o.from, o.to, o.bytes);
                if o.delay_ns == 0 {
                    udp_send(from, to, b);
                } else {
                    exec::call_after(o.delay_ns, move || udp_send(from, to, b));
                }
            }
        }
        Target::None => exec::count("net.udp.no_listener"),
    }
}

// ------------------------------------------------------------------------------------------
// UDP socket for real code

pub struct SimUdpSocket {
    local: SocketAddr,
}

impl SimUdpSocket {
    pub fn bind(host: IpAddr, local: SocketAddr) -> io::Result<Self> {
        net(|n| {
            let ip = if local.ip().is_unspecified() { host } else { local.ip() };
            let port = if local.port() == 0 {
                loop {
                    n.next_port = if n.next_port < 40000 { 40000 } else { n.next_port.wrapping_add(1) };
                    let a = SocketAddr::new(ip, n.next_port);
                    if !n.udp_socks.contains_key(&a) {
                        break n.next_port;
                    }
                }
            } else {
                local.port()
            };
            let a = SocketAddr::new(ip, port);
            if n.udp_socks.contains_key(&a) || n.udp_nodes.contains_key(&a) {
                return Err(io::Error::new(io::ErrorKind::AddrInUse, "address in use"));
            }
            let bind_ix = n.udp_bind_log.len();
            n.udp_bind_log.push((a, 0));
            n.udp_socks.insert(a, UdpSock { q: VecDeque::new(), waker: None, recvs: 0, bind_ix });
            Ok(Self { local: a })
        })
        .inspect(|s| exec::log(&format!("udp bind {}", s.local)))
    }
    pub fn local_addr(&self) -> SocketAddr {
        self.local
    }
    /// number of successful recv_from calls so far
    pub fn recv_count(addr: SocketAddr) -> u64 {
        net(|n| n.udp_socks.get(&addr).map(|s| s.recvs).unwrap_or(0))
    }
}

impl Drop for SimUdpSocket {
    fn drop(&mut self) {
        let local = self.local;
        let _ = exec::try_with(|st| {
            st.ext::<Net>().udp_socks.remove(&local);
            st.log(&format!("udp close {local}"));
        });
    }
}

#[async_trait]
impl DnsUdpSocket for SimUdpSocket {
    type Time = SimTime;

    fn poll_recv_from(&self, cx: &mut Context<'_>, buf: &mut [u8]) -> Poll<io::Result<(usize, SocketAddr)>> {
        let local = self.local;
        let r = net(|n| {
            let s = n.udp_socks.get_mut(&local).expect("socket state");
            match s.q.pop_front() {
                Some((b, from)) => {
                    s.recvs += 1;
                    let ix = s.bind_ix;
                    n.udp_bind_log[ix].1 += 1;
                    Some((b, from))
                }
                None => {
                    s.waker = Some(cx.waker().clone());
                    None
                }
            }
        });
        match r {
            Some((b, from)) => {
                let n = b.len().min(buf.len());
                buf[..n].copy_from_slice(&b[..n]);
                exec::log(&format!("udp recv {local}←{from} len={n}"));
                Poll::Ready(Ok((n, from)))
            }
            None => Poll::Pending,
        }
    }

    fn poll_send_to(&self, _cx: &mut Context<'_>, buf: &[u8], target: SocketAddr) -> Poll<io::Result<usize>> {
        let fault = net(|n| n.send_fault.clone());
        if let Some(f) = fault {
            if let Some(kind) = (f.borrow_mut())(self.local, target) {
                exec::count("fault.udp_send_error");
                return Poll::Ready(Err(io::Error::new(kind, "simulated send_to failure")));
            }
        }
        udp_send(self.local, target, buf.to_vec());
        Poll::Ready(Ok(buf.len()))
    }
}

// ------------------------------------------------------------------------------------------
// TCP

pub struct SimTcp {
    conn: u64,
    /// 0 = client end (writes pipe 0, reads pipe 1); 1 = server end
    side: usize,
    /// only the owning handle closes the connection end when dropped
    owner: bool,
}

impl SimTcp {
    fn wr(&self) -> usize {
        self.side
    }
    fn rd(&self) -> usize {
        1 - self.side
    }
    pub fn conn_id(&self) -> u64 {
        self.conn
    }
    /// second handle to the same connection end (for scripted peers that read and write from
    /// different tasks); dropping it does not close anything
    pub fn dup(&self) -> SimTcp {
        SimTcp { conn: self.conn, side: self.side, owner: false }
    }
    pub fn peer_addr(&self) -> SocketAddr {
        net(|n| {
            let c = &n.conns[&self.conn];
            if self.side == 0 { c.server } else { c.client }
        })
    }
    pub async fn read_some(&mut self, buf: &mut [u8]) -> io::Result<usize> {
        std::future::poll_fn(|cx| Pin::new(&mut *self).poll_read(cx, buf)).await
    }
    pub async fn read_exact(&mut self, buf: &mut [u8]) -> io::Result<()> {
        let mut off = 0;
        while off < buf.len() {
            let n = self.read_some(&mut buf[off..]).await?;
            if n == 0 {
                return Err(io::Error::new(io::ErrorKind::UnexpectedEof, "eof"));
            }
            off += n;
        }
        Ok(())
    }
    pub async fn write_all(&mut self, mut buf: &[u8]) -> io::Result<()> {
        while !buf.is_empty() {
            let n = std::future::poll_fn(|cx| Pin::new(&mut *self).poll_write(cx, buf)).await?;
            if n == 0 {
                return Err(io::Error::new(io::ErrorKind::WriteZero, "write zero"));
            }
            buf = &buf[n..];
        }
        Ok(())
    }
    /// graceful close of this end's write direction
    pub fn shutdown_write(&mut self) {
        close_write(self.conn, self.wr());
    }
    /// abort the connection: both directions reset
    pub fn reset(&mut self) {
        reset_conn(self.conn);
    }
}

/// create a connected pair directly (no listener, no handshake): (client end, server end)
pub fn tcp_pair(c2s: PipePlan, s2c: PipePlan) -> (SimTcp, SimTcp) {
    let id = net(|n| {
        n.next_conn += 1;
        let id = n.next_conn;
        n.conns.insert(
            id,
            Conn {
                pipes: [Pipe::new(c2s), Pipe::new(s2c)],
                client: SocketAddr::new(IpAddr::V4(Ipv4Addr::new(10, 0, 0, 1)), 50000 + (id % 10000) as u16),
                server: SocketAddr::new(IpAddr::V4(Ipv4Addr::new(10, 0, 0, 2)), 53),
            },
        );
        id
    });
    (SimTcp { conn: id, side: 0, owner: true }, SimTcp { conn: id, side: 1, owner: true })
}

/// bytes ever written into direction `dir` (0 = client→server) of connection `conn`
pub fn tcp_captured(conn: u64, dir: usize) -> Vec<u8> {
    net(|n| n.conns.get(&conn).map(|c| c.pipes[dir].captured.clone()).unwrap_or_default())
}

/// (poll_read calls, poll_write calls, poll_flush calls) seen on direction `dir`
pub fn tcp_calls(conn: u64, dir: usize) -> (u64, u64, u64) {
    net(|n| n.conns.get(&conn).map(|c| (c.pipes[dir].rd_calls, c.pipes[dir].wr_calls, c.pipes[dir].fl_calls)).unwrap_or_default())
}

fn close_write(conn: u64, dir: usize) {
    let w = net(|n| {
        n.conns.get_mut(&conn).and_then(|c| {
            let p = &mut c.pipes[dir];
            if p.write_closed {
                return None;
            }
            p.write_closed = true;
            Some((p.plan.latency_ns, p.rd_waker.take()))
        })
    });
    if let Some((lat, w)) = w {
        exec::log(&format!("tcp close_write conn={conn} dir={dir}"));
        if let Some(w) = w {
            if lat == 0 {
                w.wake();
            } else {
                exec::call_after(lat, move || w.wake());
            }
        }
    }
}

pub fn reset_conn(conn: u64) {
    let ws = net(|n| {
        let mut ws = Vec::new();
        if let Some(c) = n.conns.get_mut(&conn) {
            for p in c.pipes.iter_mut() {
                p.cut_done = Some(CutKind::Reset);
                p.buf.clear();
                ws.extend(p.rd_waker.take());
                ws.extend(p.wr_waker.take());
            }
        }
        ws
    });
    exec::log(&format!("tcp reset conn={conn}"));
    for w in ws {
        w.wake();
    }
}

fn injected_pending(cx: &mut Context<'_>, wake_ns: u64) {
    let w = cx.waker().clone();
    exec::call_after(wake_ns, move || w.wake());
}

impl AsyncRead for SimTcp {
    fn poll_read(self: Pin<&mut Self>, cx: &mut Context<'_>, buf: &mut [u8]) -> Poll<io::Result<usize>> {
        let (conn, dir) = (self.conn, self.rd());
        enum R {
            Data(Vec<u8>, Option<Waker>),
            Eof,
            Reset,
            Wait,
            Injected(u64),
        }
        let r = net(|n| {
            let p = &mut n.conns.get_mut(&conn).expect("conn").pipes[dir];
            let call = p.rd_calls;
            p.rd_calls += 1;
            if p.plan.read_pending.contains(&call) {
                return R::Injected(p.plan.pending_wake_ns);
            }
            if p.buf.is_empty() {
                if p.cut_done == Some(CutKind::Reset) && p.inflight == 0 {
                    return R::Reset;
                }
                if (p.write_closed || p.cut_done == Some(CutKind::Eof)) && p.inflight == 0 {
                    return R::Eof;
                }
                p.rd_waker = Some(cx.waker().clone());
                return R::Wait;
            }
            let lim = p.plan.read_sizes.get(p.rd_ok).copied().unwrap_or(usize::MAX).max(1);
            p.rd_ok += 1;
            let k = buf.len().min(p.buf.len()).min(lim);
            let data: Vec<u8> = p.buf.drain(..k).collect();
            p.read += k as u64;
            R::Data(data, p.wr_waker.take())
        });
        match r {
            R::Injected(d) => {
                exec::count("fault.tcp_read_pending");
                injected_pending(cx, d);
                Poll::Pending
            }
            R::Wait => Poll::Pending,
            R::Eof => Poll::Ready(Ok(0)),
            R::Reset => Poll::Ready(Err(io::Error::new(io::ErrorKind::ConnectionReset, "simulated reset"))),
            R::Data(d, w) => {
                buf[..d.len()].copy_from_slice(&d);
                if let Some(w) = w {
                    w.wake();
                }
                Poll::Ready(Ok(d.len()))
            }
        }
    }
}

fn pipe_write(conn: u64, dir: usize, cx: &mut Context<'_>, bufs: &[&[u8]]) -> Poll<io::Result<usize>> {
    enum W {
        Injected(u64),
        Broken,
        Full,
        /// (accepted length, deliverable bytes, latency, reader waker)
        Wrote(usize, Vec<u8>, u64, Option<Waker>),
    }
    let total: usize = bufs.iter().map(|b| b.len()).sum();
    let r = net(|n| {
        let p = &mut n.conns.get_mut(&conn).expect("conn").pipes[dir];
        let call = p.wr_calls;
        p.wr_calls += 1;
        if p.plan.write_pending.contains(&call) {
            return W::Injected(p.plan.pending_wake_ns);
        }
        if p.write_closed || p.reader_dropped {
            return W::Broken;
        }
        if p.plan.capacity > 0 && p.buf.len() >= p.plan.capacity && p.cut_done.is_none() {
            p.wr_waker = Some(cx.waker().clone());
            return W::Full;
        }
        let lim = p.plan.write_sizes.get(p.wr_ok).copied().unwrap_or(usize::MAX).max(1);
        p.wr_ok += 1;
        let k = total.min(lim);
        let mut data = Vec::with_capacity(k);
        for b in bufs {
            if data.len() >= k {
                break;
            }
            let take = (k - data.len()).min(b.len());
            data.extend_from_slice(&b[..take]);
        }
        p.captured.extend_from_slice(&data);
        // only bytes below the cut offset ever reach the reader
        let before = p.written;
        p.written += k as u64;
        let mut waker = None;
        if let Some((off, kind)) = p.plan.cut {
            let room = off.saturating_sub(before) as usize;
            if data.len() > room {
                data.truncate(room);
            }
            if p.written >= off && p.cut_done.is_none() {
                p.cut_done = Some(kind);
                waker = p.rd_waker.take();
            }
        } else if p.cut_done.is_some() {
            data.clear();
        }
        let lat = p.plan.latency_ns;
        if !data.is_empty() {
            if lat == 0 {
                p.buf.extend(data.iter().copied());
                if waker.is_none() {
                    waker = p.rd_waker.take();
                }
            } else {
                p.inflight += data.len() as u64;
            }
        }
        W::Wrote(k, data, lat, waker)
    });
    match r {
        W::Injected(d) => {
            exec::count("fault.tcp_write_pending");
            injected_pending(cx, d);
            Poll::Pending
        }
        W::Broken => Poll::Ready(Err(io::Error::new(io::ErrorKind::BrokenPipe, "simulated broken pipe"))),
        W::Full => {
            exec::count("fault.tcp_backpressure");
            Poll::Pending
        }
        W::Wrote(k, data, lat, waker) => {
            if lat > 0 && !data.is_empty() {
                exec::call_after(lat, move || {
                    let w = net(|n| {
                        n.conns.get_mut(&conn).and_then(|c| {
                            let p = &mut c.pipes[dir];
                            p.inflight -= data.len() as u64;
                            if !p.reader_dropped {
                                p.buf.extend(data.iter().copied());
                            }
                            p.rd_waker.take()
                        })
                    });
                    with(|st| st.ilog(&format!("T{dir}")));
                    if let Some(w) = w {
                        w.wake();
                    }
                });
            }
            if let Some(w) = waker {
                if lat == 0 {
                    w.wake();
                } else {
                    exec::call_after(lat, move || w.wake());
                }
            }
            Poll::Ready(Ok(k))
        }
    }
}

impl AsyncWrite for SimTcp {
    fn poll_write(self: Pin<&mut Self>, cx: &mut Context<'_>, buf: &[u8]) -> Poll<io::Result<usize>> {
        pipe_write(self.conn, self.wr(), cx, &[buf])
    }
    fn poll_write_vectored(self: Pin<&mut Self>, cx: &mut Context<'_>, bufs: &[io::IoSlice<'_>]) -> Poll<io::Result<usize>> {
        let v: Vec<&[u8]> = bufs.iter().map(|b| &**b).collect();
        exec::count("net.tcp.vectored_write");
        pipe_write(self.conn, self.wr(), cx, &v)
    }
    fn poll_flush(self: Pin<&mut Self>, cx: &mut Context<'_>) -> Poll<io::Result<()>> {
        let (conn, dir) = (self.conn, self.wr());
        let inj = net(|n| {
            let p = &mut n.conns.get_mut(&conn).expect("conn").pipes[dir];
            let call = p.fl_calls;
            p.fl_calls += 1;
            if p.plan.flush_pending.contains(&call) { Some(p.plan.pending_wake_ns) } else { None }
        });
        if let Some(d) = inj {
            exec::count("fault.tcp_flush_pending");
            injected_pending(cx, d);
            return Poll::Pending;
        }
        Poll::Ready(Ok(()))
    }
    fn poll_close(self: Pin<&mut Self>, _cx: &mut Context<'_>) -> Poll<io::Result<()>> {
        close_write(self.conn, self.wr());
        Poll::Ready(Ok(()))
    }
}

impl Drop for SimTcp {
    fn drop(&mut self) {
        if !self.owner {
            return;
        }
        let (conn, wr, rd) = (self.conn, self.wr(), self.rd());
        let _ = exec::try_with(|st| {
            let n = st.ext::<Net>();
            let mut ws = Vec::new();
            if let Some(c) = n.conns.get_mut(&conn) {
                // our write direction ends (EOF for the peer once drained)
                if !c.pipes[wr].write_closed {
                    c.pipes[wr].write_closed = true;
                    ws.extend(c.pipes[wr].rd_waker.take());
                }
                // nobody reads our read direction any more: peer's writes break
                c.pipes[rd].reader_dropped = true;
                if c.pipes[rd].cut_done.is_none() {
                    c.pipes[rd].cut_done = Some(CutKind::Reset);
                }
                ws.extend(c.pipes[rd].wr_waker.take());
            }
            st.log(&format!("tcp drop conn={conn} side={wr}"));
            ws
        })
        .map(|ws| {
            for w in ws {
                w.wake();
            }
        });
    }
}

impl DnsTcpStream for SimTcp {
    type Time = SimTime;
}

fn decide_connect(host: IpAddr, server_addr: SocketAddr) -> ConnectVerdict {
    let (policy, nth, part) = net(|n| {
        let c = n.connect_count.entry((host, server_addr)).or_insert(0);
        let nth = *c;
        *c += 1;
        (n.connect_policy.clone(), nth, n.partitioned.contains(&host) || n.partitioned.contains(&server_addr.ip()))
    });
    exec::log(&format!("tcp connect {host}→{server_addr} #{nth}"));
    exec::count("net.tcp.connect");
    if part {
        return ConnectVerdict::Blackhole;
    }
    match policy {
        Some(p) => (p.borrow_mut())(host, server_addr, nth),
        None => {
            let l = default_latency();
            ConnectVerdict::Accept {
                rtt_ns: 2 * l,
                c2s: PipePlan { latency_ns: l, ..Default::default() },
                s2c: PipePlan { latency_ns: l, ..Default::default() },
            }
        }
    }
}

fn establish(host: IpAddr, server_addr: SocketAddr, c2s: PipePlan, s2c: PipePlan) -> io::Result<SimTcp> {
    let acceptor = net(|n| n.tcp_listeners.get(&server_addr).cloned());
    let Some(acceptor) = acceptor else {
        exec::count("net.tcp.no_listener");
        return Err(io::Error::new(io::ErrorKind::ConnectionRefused, "no listener"));
    };
    let (id, client_addr) = net(|n| {
        n.next_conn += 1;
        let id = n.next_conn;
        n.next_port = if n.next_port < 40000 { 40000 } else { n.next_port.wrapping_add(1) };
        let client = SocketAddr::new(host, n.next_port);
        n.conns.insert(id, Conn { pipes: [Pipe::new(c2s), Pipe::new(s2c)], client, server: server_addr });
        (id, client)
    });
    with(|st| st.ilog(&format!("C{host}>{}", server_addr.ip())));
    (acceptor.borrow_mut())(SimTcp { conn: id, side: 1, owner: true }, client_addr);
    Ok(SimTcp { conn: id, side: 0, owner: true })
}

// ------------------------------------------------------------------------------------------
// provider

#[derive(Clone, Debug)]
pub struct SimProvider {
    pub host: IpAddr,
}

impl SimProvider {
    pub fn new(host: IpAddr) -> Self {
        Self { host }
    }
}

impl RuntimeProvider for SimProvider {
    type Handle = SimHandle;
    type Timer = SimTime;
    type Udp = SimUdpSocket;
    type Tcp = SimTcp;

    fn create_handle(&self) -> Self::Handle {
        SimHandle
    }

    fn connect_tcp(
        &self,
        server_addr: SocketAddr,
        _bind_addr: Option<SocketAddr>,
        timeout: Option<Duration>,
    ) -> Pin<Box<dyn Send + Future<Output = Result<Self::Tcp, io::Error>>>> {
        let host = self.host;
        Box::pin(async move {
            let verdict = decide_connect(host, server_addr);
            let wait = timeout.unwrap_or(Duration::from_secs(5));
            match verdict {
                ConnectVerdict::Blackhole => {
                    exec::count("fault.tcp_connect_blackhole");
                    exec::sleep(wait).await;
                    Err(io::Error::new(io::ErrorKind::TimedOut, "TCP connect timed out"))
                }
                ConnectVerdict::Refuse { after_ns } => {
                    exec::count("fault.tcp_connect_refused");
                    if Duration::from_nanos(after_ns) >= wait {
                        exec::sleep(wait).await;
                        return Err(io::Error::new(io::ErrorKind::TimedOut, "TCP connect timed out"));
                    }
                    exec::sleep_ns(after_ns).await;
                    Err(io::Error::new(io::ErrorKind::ConnectionRefused, "simulated connection refused"))
                }
                ConnectVerdict::Accept { rtt_ns, c2s, s2c } => {
                    if Duration::from_nanos(rtt_ns) >= wait {
                        exec::sleep(wait).await;
                        return Err(io::Error::new(io::ErrorKind::TimedOut, "TCP connect timed out"));
                    }
                    exec::sleep_ns(rtt_ns).await;
                    establish(host, server_addr, c2s, s2c)
                }
            }
        })
    }

    fn bind_udp(
        &self,
        local_addr: SocketAddr,
        _server_addr: SocketAddr,
    ) -> Pin<Box<dyn Send + Future<Output = Result<Self::Udp, io::Error>>>> {
        let host = self.host;
        Box::pin(async move { SimUdpSocket::bind(host, local_addr) })
    }
}
