//! hsim — deterministic simulator for hickory-dns: executor, discrete-event clock, libc
//! clock/entropy interposition, simulated UDP/TCP, fork-per-run supervisor, replay and evidence.

pub mod exec;
pub mod interpose;
pub mod net;
pub mod rng;
pub mod supervisor;

pub use exec::{End, RunOut, SchedPolicy, SimConfig, Violation};
pub use rng::Rng;
