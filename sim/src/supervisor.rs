//! Fork-per-run supervisor, minimiser, replay files, known findings and evidence.
//!
//! main ──fork──> W workers (single-threaded) ──fork per unit──> child (fresh thread per unit)
//!
//! A *unit* is a block of consecutive run indices of one part of a check.  Heavy rigs use blocks
//! of one run (a pristine process image per run); micro-rigs use larger blocks and re-execute any
//! violating plan alone before it is reported.

use std::collections::{BTreeMap, BTreeSet};
use std::io::{Read, Write};
use std::os::fd::FromRawFd;
use std::path::{Path, PathBuf};
use std::time::Instant;

use serde::{Deserialize, Serialize};
use serde_json::{json, Value};

use crate::exec::Violation;
use crate::rng::{mix, Rng};

#[derive(Clone, Copy, Debug, PartialEq, Eq, Serialize, Deserialize)]
pub enum Tier {
    Quick,
    Thorough,
}

impl Tier {
    pub fn name(&self) -> &'static str {
        match self {
            Tier::Quick => "quick",
            Tier::Thorough => "thorough",
        }
    }
}

#[derive(Default, Clone, Debug, Serialize, Deserialize)]
pub struct Report {
    pub violation: Option<Violation>,
    pub counters: BTreeMap<String, u64>,
    /// class of the explored case by the part's stated distinct measure
    pub sig: u64,
    pub nontrivial: bool,
    pub log_hash: u64,
    pub ilog_hash: u64,
    pub sim_ns: u64,
    pub steps: u64,
    #[serde(default)]
    pub trace: Vec<String>,
}

pub struct Describe {
    pub rule: String,
    pub real: Vec<&'static str>,
    pub stub: Vec<&'static str>,
    pub assumptions: Vec<&'static str>,
}

/// One simulated scenario family of a property.
pub trait Part: Sync + Send {
    fn name(&self) -> &'static str;
    fn runs(&self, tier: Tier) -> u64;
    fn block(&self, _tier: Tier) -> u64 {
        1
    }
    /// run every plan on a brand-new thread (fresh thread-locals).  Micro-rigs that touch no
    /// thread-local state (no rand, no HashMap, no select!) may opt out.
    fn fresh_thread(&self) -> bool {
        true
    }
    /// materialise the explicit plan of run `seed` (pure function of its arguments)
    fn gen(&self, seed: u64, tier: Tier) -> Value;
    /// execute a plan (pure function of the plan and the code under test)
    fn run(&self, plan: &Value, trace: bool) -> Report;
    /// simpler plans to try during minimisation
    fn shrink(&self, _plan: &Value) -> Vec<Value> {
        Vec::new()
    }
    fn describe(&self) -> Describe;
}

pub struct CheckDef {
    pub id: &'static str,
    pub level: &'static str,
    pub parts: Vec<Box<dyn Part>>,
}

// ------------------------------------------------------------------------------------------
// known findings

#[derive(Clone, Debug)]
pub struct Known {
    pub property: String,
    pub key: String,
    pub text: String,
}

static KNOWN: std::sync::OnceLock<Vec<Known>> = std::sync::OnceLock::new();

pub fn verif_dir() -> PathBuf {
    std::env::var_os("VERIF_DIR").map(PathBuf::from).unwrap_or_else(|| PathBuf::from("/verif"))
}

pub fn load_known() -> &'static Vec<Known> {
    KNOWN.get_or_init(|| {
        let mut v = Vec::new();
        if let Ok(s) = std::fs::read_to_string(verif_dir().join("known-findings.txt")) {
            for line in s.lines() {
                let line = line.trim();
                let Some(rest) = line.strip_prefix("finding:") else { continue };
                let mut property = String::new();
                let mut key = String::new();
                let (head, text) = rest.split_once("::").unwrap_or((rest, ""));
                for tok in head.split_whitespace() {
                    if let Some(p) = tok.strip_prefix("property=") {
                        property = p.to_string();
                    } else if let Some(k) = tok.strip_prefix("key=") {
                        key = k.to_string();
                    }
                }
                if !property.is_empty() && !key.is_empty() {
                    v.push(Known { property, key, text: text.trim().to_string() });
                }
            }
        }
        v
    })
}

pub fn violation_key(v: &Violation) -> String {
    if v.shape.is_empty() {
        v.invariant.clone()
    } else {
        format!("{}/{}", v.invariant, v.shape)
    }
}

pub fn is_known(v: &Violation) -> bool {
    let k = violation_key(v);
    load_known().iter().any(|e| e.key == k)
}

// ------------------------------------------------------------------------------------------
// child execution

#[derive(Default, Serialize, Deserialize)]
struct UnitResult {
    evaluations: u64,
    counters: BTreeMap<String, u64>,
    sigs: Vec<u64>,
    ilogs: Vec<u64>,
    nontrivial: u64,
    sim_ns: u64,
    steps: u64,
    violations: Vec<Found>,
    samples: Vec<Value>,
    hashes: Vec<(u64, u64)>,
    harness_error: Option<String>,
}

#[derive(Clone, Serialize, Deserialize)]
struct Found {
    idx: u64,
    seed: u64,
    plan: Value,
    violation: Violation,
    log_hash: u64,
}

thread_local! {
    static PANIC_INFO: std::cell::RefCell<Option<(String, String, String)>> = const { std::cell::RefCell::new(None) };
}

fn install_panic_hook() {
    std::panic::set_hook(Box::new(|info| {
        let loc = info.location().map(|l| format!("{}:{}", l.file(), l.line())).unwrap_or_default();
        let msg = if let Some(s) = info.payload().downcast_ref::<&str>() {
            s.to_string()
        } else if let Some(s) = info.payload().downcast_ref::<String>() {
            s.clone()
        } else {
            "panic".to_string()
        };
        let bt = std::backtrace::Backtrace::force_capture().to_string();
        PANIC_INFO.with(|p| *p.borrow_mut() = Some((loc, msg, bt)));
    }));
}

/// run one plan on this thread, converting panics into violations / harness errors
fn run_guarded(part: &dyn Part, prop: &str, plan: &Value, trace: bool) -> Result<Report, String> {
    PANIC_INFO.with(|p| *p.borrow_mut() = None);
    let r = std::panic::catch_unwind(std::panic::AssertUnwindSafe(|| part.run(plan, trace)));
    match r {
        Ok(rep) => Ok(rep),
        Err(_) => {
            crate::interpose::deactivate();
            let (loc, msg, bt) = PANIC_INFO.with(|p| p.borrow_mut().take()).unwrap_or_default();
            // attribute: first backtrace frame with a source path under /repo or /verif decides
            let mut in_repo = loc.starts_with("/repo/") || loc.starts_with("crates/");
            let mut in_verif = loc.contains("/verif/") || loc.starts_with("hv/") || loc.starts_with("sim/");
            if !in_repo && !in_verif {
                for line in bt.lines() {
                    let l = line.trim();
                    if let Some(p) = l.strip_prefix("at ") {
                        if p.starts_with("/repo/") {
                            in_repo = true;
                            break;
                        }
                        if p.contains("/verif/") {
                            in_verif = true;
                            break;
                        }
                    }
                }
            }
            if in_verif && !in_repo {
                return Err(format!("panic in harness at {loc}: {msg}"));
            }
            let mut rep = Report::default();
            // the location (file:line) is the shape, so a different panic is a different finding
            let short = loc.rsplit("/repo/").next().unwrap_or(&loc).to_string();
            rep.violation = Some(Violation {
                invariant: format!("{prop}.panic"),
                shape: short,
                detail: format!("panic at {loc}: {msg}"),
            });
            Ok(rep)
        }
    }
}

fn unit_body(part: &'static dyn Part, prop: &'static str, tier: Tier, base_seed: u64, part_ix: usize, start: u64, n: u64, want_hashes: bool) -> UnitResult {
    let mut u = UnitResult::default();
    let mut sigs = BTreeSet::new();
    let mut ilogs = BTreeSet::new();
    for idx in start..start + n {
        let seed = run_seed(base_seed, part_ix, idx);
        let plan = part.gen(seed, tier);
        // every run gets a brand-new thread: fresh thread-locals (rand's ThreadRng, std's
        // RandomState keys, futures-util's select! RNG, tokio coop budget …)
        let res = if part.fresh_thread() { fresh_thread(part, prop, plan.clone(), false) } else { run_guarded(part, prop, &plan, false) };
        match res {
            Err(e) => {
                u.harness_error = Some(format!("{e} (seed {seed})"));
                break;
            }
            Ok(rep) => {
                u.evaluations += 1;
                for (k, v) in &rep.counters {
                    *u.counters.entry(k.clone()).or_insert(0) += v;
                }
                if rep.nontrivial {
                    u.nontrivial += 1;
                    sigs.insert(rep.sig);
                    ilogs.insert(rep.ilog_hash);
                }
                u.sim_ns = u.sim_ns.saturating_add(rep.sim_ns);
                u.steps += rep.steps;
                if want_hashes {
                    u.hashes.push((idx, rep.log_hash));
                }
                if u.samples.is_empty() && rep.nontrivial && idx % 7 == 0 {
                    u.samples.push(plan.clone());
                }
                if let Some(v) = rep.violation {
                    if is_known(&v) {
                        *u.counters.entry(format!("known.{}", violation_key(&v))).or_insert(0) += 1;
                    } else if u.violations.len() < 3 {
                        u.violations.push(Found { idx, seed, plan, violation: v, log_hash: rep.log_hash });
                    }
                }
            }
        }
    }
    u.sigs = sigs.into_iter().collect();
    u.ilogs = ilogs.into_iter().collect();
    u
}

fn fresh_thread(part: &'static dyn Part, prop: &'static str, plan: Value, trace: bool) -> Result<Report, String> {
    let pr = PartRef(part as *const dyn Part);
    let h = std::thread::Builder::new()
        .stack_size(16 << 20)
        .spawn(move || run_guarded(pr.get(), prop, &plan, trace))
        .map_err(|e| format!("thread spawn: {e}"))?;
    match h.join() {
        Ok(r) => r,
        Err(_) => Err("run thread died outside catch_unwind".to_string()),
    }
}

pub fn run_seed(base_seed: u64, part_ix: usize, idx: u64) -> u64 {
    mix(mix(base_seed ^ 0xA5A5_0000 ^ (part_ix as u64) << 48) ^ idx)
}

enum ChildEnd {
    Ok(Vec<u8>),
    Signal(i32),
    Exit(i32),
}

/// fork, run `f` on a fresh thread of the child, return what it wrote
fn in_child(f: impl FnOnce() -> Vec<u8> + Send + 'static, wall_limit_s: u32) -> ChildEnd {
    unsafe {
        let mut fds = [0i32; 2];
        assert_eq!(libc::pipe(fds.as_mut_ptr()), 0);
        let pid = libc::fork();
        assert!(pid >= 0, "fork failed");
        if pid == 0 {
            libc::close(fds[0]);
            libc::alarm(wall_limit_s);
            let h = std::thread::Builder::new().stack_size(8 << 20).spawn(f).expect("spawn");
            let out = match h.join() {
                Ok(v) => v,
                Err(_) => libc::_exit(101),
            };
            let mut file = std::fs::File::from_raw_fd(fds[1]);
            let _ = file.write_all(&out);
            let _ = file.flush();
            libc::_exit(0);
        }
        libc::close(fds[1]);
        let mut file = std::fs::File::from_raw_fd(fds[0]);
        let mut buf = Vec::new();
        let _ = file.read_to_end(&mut buf);
        let mut status = 0i32;
        libc::waitpid(pid, &mut status, 0);
        if libc::WIFSIGNALED(status) {
            ChildEnd::Signal(libc::WTERMSIG(status))
        } else if libc::WEXITSTATUS(status) != 0 {
            ChildEnd::Exit(libc::WEXITSTATUS(status))
        } else {
            ChildEnd::Ok(buf)
        }
    }
}

/// `&'static` access to the check for closures sent into the child thread
#[derive(Clone, Copy)]
struct PartRef(*const dyn Part);
unsafe impl Send for PartRef {}
impl PartRef {
    fn get(&self) -> &'static dyn Part {
        unsafe { &*self.0 }
    }
}

fn run_unit(part: &'static dyn Part, prop: &'static str, tier: Tier, base_seed: u64, part_ix: usize, start: u64, n: u64, want_hashes: bool) -> UnitResult {
    let pr = PartRef(part as *const dyn Part);
    let end = in_child(
        move || {
            install_panic_hook();
            let u = unit_body(pr.get(), prop, tier, base_seed, part_ix, start, n, want_hashes);
            serde_json::to_vec(&u).unwrap()
        },
        180,
    );
    match end {
        ChildEnd::Ok(b) => serde_json::from_slice(&b).unwrap_or_else(|e| UnitResult { harness_error: Some(format!("bad unit result: {e}")), ..Default::default() }),
        ChildEnd::Signal(sig) | ChildEnd::Exit(sig) => {
            if n > 1 {
                // find the culprit by running the seeds one by one
                let mut agg = UnitResult::default();
                for idx in start..start + n {
                    let u = run_unit(part, prop, tier, base_seed, part_ix, idx, 1, want_hashes);
                    merge(&mut agg, u);
                }
                agg
            } else {
                let seed = run_seed(base_seed, part_ix, start);
                let plan = part.gen(seed, tier);
                let (inv, shape) = if sig == libc::SIGALRM {
                    (format!("{prop}.hang"), "wall-clock limit".to_string())
                } else {
                    (format!("{prop}.crash"), format!("signal-or-exit {sig}"))
                };
                let v = Violation { invariant: inv, shape, detail: format!("child terminated abnormally ({sig}) on seed {seed}") };
                UnitResult { evaluations: 1, violations: vec![Found { idx: start, seed, plan, violation: v, log_hash: 0 }], ..Default::default() }
            }
        }
    }
}

fn merge(a: &mut UnitResult, b: UnitResult) {
    a.evaluations += b.evaluations;
    for (k, v) in b.counters {
        *a.counters.entry(k).or_insert(0) += v;
    }
    a.sigs.extend(b.sigs);
    a.ilogs.extend(b.ilogs);
    a.nontrivial += b.nontrivial;
    a.sim_ns = a.sim_ns.saturating_add(b.sim_ns);
    a.steps = a.steps.saturating_add(b.steps);
    a.violations.extend(b.violations);
    if a.samples.len() < 3 {
        a.samples.extend(b.samples);
    }
    a.hashes.extend(b.hashes);
    if a.harness_error.is_none() {
        a.harness_error = b.harness_error;
    }
}

/// run a single plan in a pristine child
pub fn run_plan_isolated(part: &'static dyn Part, prop: &'static str, plan: &Value, trace: bool) -> Result<Report, String> {
    let pr = PartRef(part as *const dyn Part);
    let plan2 = plan.clone();
    let end = in_child(
        move || {
            install_panic_hook();
            let r = fresh_thread(pr.get(), prop, plan2, trace);
            serde_json::to_vec(&r).unwrap()
        },
        180,
    );
    match end {
        ChildEnd::Ok(b) => serde_json::from_slice::<Result<Report, String>>(&b).map_err(|e| e.to_string())?,
        ChildEnd::Signal(s) | ChildEnd::Exit(s) => {
            let mut rep = Report::default();
            let (inv, shape) = if s == libc::SIGALRM { (format!("{prop}.hang"), "wall-clock limit".to_string()) } else { (format!("{prop}.crash"), format!("signal-or-exit {s}")) };
            rep.violation = Some(Violation { invariant: inv, shape, detail: format!("child terminated abnormally ({s})") });
            Ok(rep)
        }
    }
}

fn same_failure(a: &Violation, b: &Violation) -> bool {
    a.invariant == b.invariant && a.shape == b.shape
}

#[derive(Serialize, Deserialize, Clone)]
pub struct ReplayFile {
    pub property: String,
    pub part: String,
    pub seed: u64,
    pub tier: String,
    pub invariant: String,
    pub shape: String,
    pub detail: String,
    pub log_hash: u64,
    pub minimised: bool,
    pub shrink_steps: u64,
    pub plan: Value,
}

/// minimise, verify by replay in a fresh process, write the replay file; returns its path
fn report_violation(part: &'static dyn Part, prop: &'static str, tier: Tier, f: &Found) -> Result<(PathBuf, ReplayFile), String> {
    // confirm alone first (block mode may have run it after other plans)
    let first = run_plan_isolated(part, prop, &f.plan, false)?;
    let Some(v0) = first.violation.clone() else {
        return Err(format!("violation {} of seed {} did not reproduce alone in a fresh process (in-block state leak or nondeterminism)", f.violation.invariant, f.seed));
    };
    let mut best = f.plan.clone();
    let mut best_v = v0.clone();
    let mut best_hash = first.log_hash;
    let mut steps = 0u64;
    let t0 = Instant::now();
    let mut attempts = 0;
    'outer: loop {
        if attempts > 400 || t0.elapsed().as_secs() > 90 {
            break;
        }
        for cand in part.shrink(&best) {
            attempts += 1;
            if attempts > 400 || t0.elapsed().as_secs() > 90 {
                break 'outer;
            }
            if cand == best {
                continue;
            }
            if let Ok(rep) = run_plan_isolated(part, prop, &cand, false) {
                if let Some(v) = rep.violation {
                    if same_failure(&v, &v0) {
                        best = cand;
                        best_v = v;
                        best_hash = rep.log_hash;
                        steps += 1;
                        continue 'outer;
                    }
                }
            }
        }
        break;
    }
    // replay check of the minimised plan in yet another process
    let again = run_plan_isolated(part, prop, &best, false)?;
    let (plan, v, h, minimised) = match again.violation {
        Some(v) if same_failure(&v, &v0) && again.log_hash == best_hash => (best, best_v, best_hash, steps > 0),
        _ => {
            let again0 = run_plan_isolated(part, prop, &f.plan, false)?;
            match again0.violation {
                Some(v) if same_failure(&v, &v0) => (f.plan.clone(), v, again0.log_hash, false),
                _ => return Err(format!("replay of seed {} is not deterministic", f.seed)),
            }
        }
    };
    let rf = ReplayFile {
        property: prop.to_string(),
        part: part.name().to_string(),
        seed: f.seed,
        tier: tier.name().to_string(),
        invariant: v.invariant.clone(),
        shape: v.shape.clone(),
        detail: v.detail.clone(),
        log_hash: h,
        minimised,
        shrink_steps: steps,
        plan,
    };
    let dir = verif_dir().join("replays");
    let _ = std::fs::create_dir_all(&dir);
    let path = dir.join(format!("{}-{}-{}.json", prop, part.name(), f.seed));
    std::fs::write(&path, serde_json::to_vec_pretty(&rf).unwrap()).map_err(|e| e.to_string())?;
    Ok((path, rf))
}

// ------------------------------------------------------------------------------------------
// batch driver

#[derive(Default, Serialize, Deserialize)]
struct WorkerOut {
    per_part: Vec<UnitResult>,
    reported: Vec<(String, String, String)>, // (path, invariant key, detail)
    errors: Vec<String>,
}

pub struct BatchOpts {
    pub tier: Tier,
    pub base_seed: u64,
    pub workers: usize,
    pub scale_num: u64,
    pub scale_den: u64,
    pub want_hashes: bool,
    pub block_override: Option<u64>,
    pub reverse: bool,
    pub only_part: Option<String>,
    pub write_evidence: bool,
}

pub struct BatchOut {
    pub exit_code: i32,
    pub hashes: BTreeMap<(usize, u64), u64>,
    pub evaluations: u64,
}

fn units_for(def: &CheckDef, o: &BatchOpts) -> Vec<(usize, u64, u64)> {
    let mut units = Vec::new();
    for (pi, p) in def.parts.iter().enumerate() {
        if let Some(only) = &o.only_part {
            if p.name() != only {
                continue;
            }
        }
        let runs = (p.runs(o.tier) * o.scale_num / o.scale_den).max(1);
        let block = o.block_override.unwrap_or_else(|| p.block(o.tier)).max(1);
        let mut s = 0;
        while s < runs {
            let n = block.min(runs - s);
            units.push((pi, s, n));
            s += n;
        }
    }
    // interleave parts so that every worker sees a mix; deterministic
    let mut r = Rng::new(0xC0FFEE);
    r.shuffle(&mut units);
    if o.reverse {
        units.reverse();
    }
    units
}

pub fn run_batch(def: &'static CheckDef, o: &BatchOpts) -> BatchOut {
    let t0 = Instant::now();
    let units = units_for(def, o);
    let w = o.workers.max(1);
    let _ = load_known();
    // fork workers
    let mut pipes = Vec::new();
    for wi in 0..w {
        unsafe {
            let mut fds = [0i32; 2];
            assert_eq!(libc::pipe(fds.as_mut_ptr()), 0);
            let pid = libc::fork();
            assert!(pid >= 0);
            if pid == 0 {
                libc::close(fds[0]);
                for (rfd, _) in &pipes {
                    libc::close(*rfd);
                }
                let out = worker(def, o, &units, wi, w);
                let mut file = std::fs::File::from_raw_fd(fds[1]);
                let _ = file.write_all(&serde_json::to_vec(&out).unwrap());
                let _ = file.flush();
                libc::_exit(0);
            }
            libc::close(fds[1]);
            pipes.push((fds[0], pid));
        }
    }
    // collect (reader threads so that no worker blocks on a full pipe)
    let handles: Vec<_> = pipes
        .iter()
        .map(|(fd, _)| {
            let fd = *fd;
            std::thread::spawn(move || {
                let mut f = unsafe { std::fs::File::from_raw_fd(fd) };
                let mut b = Vec::new();
                let _ = f.read_to_end(&mut b);
                b
            })
        })
        .collect();
    let mut outs = Vec::new();
    let mut harness_errors = Vec::new();
    for (h, (_, pid)) in handles.into_iter().zip(pipes.iter()) {
        let b = h.join().unwrap();
        let mut status = 0;
        unsafe { libc::waitpid(*pid, &mut status, 0) };
        match serde_json::from_slice::<WorkerOut>(&b) {
            Ok(o) => outs.push(o),
            Err(e) => harness_errors.push(format!("worker died: {e} status={status}")),
        }
    }
    // aggregate
    let np = def.parts.len();
    let mut per_part: Vec<UnitResult> = (0..np).map(|_| UnitResult::default()).collect();
    let mut reported = Vec::new();
    for o in outs {
        for (i, u) in o.per_part.into_iter().enumerate() {
            merge(&mut per_part[i], u);
        }
        reported.extend(o.reported);
        harness_errors.extend(o.errors);
    }
    let mut hashes = BTreeMap::new();
    for (pi, u) in per_part.iter().enumerate() {
        for (idx, h) in &u.hashes {
            hashes.insert((pi, *idx), *h);
        }
        if let Some(e) = &u.harness_error {
            harness_errors.push(e.clone());
        }
    }
    let wall = t0.elapsed().as_secs_f64();
    let evaluations: u64 = per_part.iter().map(|u| u.evaluations).sum();

    // known findings lines
    let known = load_known();
    let mut all_counters: BTreeMap<String, u64> = BTreeMap::new();
    for u in &per_part {
        for (k, v) in &u.counters {
            *all_counters.entry(k.clone()).or_insert(0) += v;
        }
    }
    for k in known.iter().filter(|k| k.property == def.id) {
        let seen = all_counters.get(&format!("known.{}", k.key)).copied().unwrap_or(0);
        println!("KNOWN-FINDING: property={} key={} {} (reproduced {} times in this run)", def.id, k.key, k.text, seen);
    }
    let mut seen_paths = BTreeSet::new();
    for (path, key, detail) in &reported {
        if seen_paths.insert(path.clone()) {
            println!("VIOLATION property={} replay={}", def.id, path);
            println!("  invariant={key} detail={detail}");
        }
    }
    for e in &harness_errors {
        println!("HARNESS-ERROR: {e}");
    }

    if o.write_evidence {
        write_evidence(def, o, &per_part, wall, reported.len() as u64);
    }
    println!(
        "{} {}: {} runs in {:.1}s ({} parts), violations={}, harness_errors={}",
        def.id,
        o.tier.name(),
        evaluations,
        wall,
        np,
        seen_paths.len(),
        harness_errors.len()
    );
    let exit_code = if !harness_errors.is_empty() {
        2
    } else if !seen_paths.is_empty() {
        1
    } else {
        0
    };
    BatchOut { exit_code, hashes, evaluations }
}

fn worker(def: &'static CheckDef, o: &BatchOpts, units: &[(usize, u64, u64)], wi: usize, w: usize) -> WorkerOut {
    let np = def.parts.len();
    let mut out = WorkerOut { per_part: (0..np).map(|_| UnitResult::default()).collect(), ..Default::default() };
    let mut reported_keys: BTreeSet<String> = BTreeSet::new();
    for (ui, (pi, start, n)) in units.iter().enumerate() {
        if ui % w != wi {
            continue;
        }
        let part = def.parts[*pi].as_ref();
        let mut u = run_unit(part, def.id, o.tier, o.base_seed, *pi, *start, *n, o.want_hashes);
        // dedupe within the worker to bound memory
        let found = std::mem::take(&mut u.violations);
        for f in found {
            let key = violation_key(&f.violation);
            // one replay per distinct failure per worker is enough
            if !reported_keys.insert(format!("{}:{}", part.name(), key)) {
                continue;
            }
            match report_violation(part, def.id, o.tier, &f) {
                Ok((path, rf)) => out.reported.push((path.display().to_string(), format!("{}/{}", rf.invariant, rf.shape), rf.detail)),
                Err(e) => out.errors.push(e),
            }
        }
        let agg = &mut out.per_part[*pi];
        merge(agg, u);
        if agg.sigs.len() > 200_000 {
            agg.sigs.sort_unstable();
            agg.sigs.dedup();
        }
        if agg.ilogs.len() > 200_000 {
            agg.ilogs.sort_unstable();
            agg.ilogs.dedup();
        }
    }
    for agg in out.per_part.iter_mut() {
        agg.sigs.sort_unstable();
        agg.sigs.dedup();
        agg.ilogs.sort_unstable();
        agg.ilogs.dedup();
    }
    out
}

fn write_evidence(def: &CheckDef, o: &BatchOpts, per_part: &[UnitResult], wall: f64, violations: u64) {
    let mut evaluations = 0;
    let mut distinct = 0u64;
    let mut interleavings = 0u64;
    let mut sim_ns = 0u64;
    let mut faults: BTreeMap<String, u64> = BTreeMap::new();
    let mut probes: BTreeMap<String, u64> = BTreeMap::new();
    let mut samples = Vec::new();
    let mut rules = Vec::new();
    let mut real = BTreeSet::new();
    let mut stub = BTreeSet::new();
    let mut assumptions = BTreeSet::new();
    let mut parts_json = Vec::new();
    for (p, u) in def.parts.iter().zip(per_part) {
        let d = p.describe();
        let sigs: BTreeSet<u64> = u.sigs.iter().copied().collect();
        let il: BTreeSet<u64> = u.ilogs.iter().copied().collect();
        evaluations += u.evaluations;
        distinct += sigs.len() as u64;
        interleavings += il.len() as u64;
        sim_ns = sim_ns.saturating_add(u.sim_ns);
        for (k, v) in &u.counters {
            if k.starts_with("fault.") {
                *faults.entry(k.clone()).or_insert(0) += v;
            } else {
                *probes.entry(k.clone()).or_insert(0) += v;
            }
        }
        for s in u.samples.iter().take(2) {
            samples.push(json!({"part": p.name(), "plan": s}));
        }
        rules.push(format!("[{}] {}", p.name(), d.rule));
        real.extend(d.real.iter().map(|s| s.to_string()));
        stub.extend(d.stub.iter().map(|s| s.to_string()));
        assumptions.extend(d.assumptions.iter().map(|s| s.to_string()));
        parts_json.push(json!({
            "part": p.name(), "runs": u.evaluations, "nontrivial_runs": u.nontrivial,
            "distinct_nontrivial": sigs.len(), "distinct_interleavings": il.len(),
            "sim_seconds": u.sim_ns as f64 / 1e9, "executor_steps": u.steps,
        }));
    }
    assumptions.insert("await-point scheduling granularity (single-threaded executor); interleavings inside one poll on a multi-thread runtime are not explored".to_string());
    assumptions.insert("a clean batch is evidence over the sampled seeds, not a proof".to_string());
    let ev = json!({
        "property_id": def.id,
        "tier": o.tier.name(),
        "seed": (o.base_seed & 0x7FFF_FFFF_FFFF_FFFF) as i64,
        "level": def.level,
        "coverage": {
            "evaluations": evaluations,
            "distinct_nontrivial": distinct,
            "rule": rules.join(" || "),
            "samples": samples,
            "runs_per_hour": if wall > 0.0 { (evaluations as f64 / wall * 3600.0) as u64 } else { 0 },
            "sim_seconds": sim_ns as f64 / 1e9,
            "faults_fired": faults,
            "probes": probes,
            "distinct_interleavings": interleavings,
            "parts": parts_json,
            "real_components": real,
            "stub_components": stub,
            "workers": o.workers,
        },
        "assumptions": assumptions,
        "wall_s": wall,
        "violations": violations,
    });
    let dir = verif_dir().join("evidence");
    let _ = std::fs::create_dir_all(&dir);
    let path = dir.join(format!("{}.json", def.id));
    let _ = std::fs::write(path, serde_json::to_vec_pretty(&ev).unwrap());
}

// ------------------------------------------------------------------------------------------
// replay

pub fn replay(def: &'static CheckDef, path: &Path, trace: bool) -> i32 {
    let Ok(b) = std::fs::read(path) else {
        println!("HARNESS-ERROR: cannot read {}", path.display());
        return 2;
    };
    let rf: ReplayFile = match serde_json::from_slice(&b) {
        Ok(r) => r,
        Err(e) => {
            println!("HARNESS-ERROR: bad replay file: {e}");
            return 2;
        }
    };
    let Some(part) = def.parts.iter().find(|p| p.name() == rf.part) else {
        println!("HARNESS-ERROR: unknown part {}", rf.part);
        return 2;
    };
    match run_plan_isolated(part.as_ref(), def.id, &rf.plan, trace) {
        Err(e) => {
            println!("HARNESS-ERROR: {e}");
            2
        }
        Ok(rep) => {
            for l in &rep.trace {
                println!("{l}");
            }
            match rep.violation {
                Some(v) => {
                    println!("replayed: invariant={} shape={} detail={}", v.invariant, v.shape, v.detail);
                    println!("log_hash={} (recorded {}) {}", rep.log_hash, rf.log_hash, if rep.log_hash == rf.log_hash { "IDENTICAL" } else { "DIFFERENT" });
                    if v.invariant == rf.invariant && v.shape == rf.shape {
                        println!("VIOLATION property={} replay={}", def.id, path.display());
                        1
                    } else {
                        println!("replay hit a different invariant than recorded ({})", rf.invariant);
                        1
                    }
                }
                None => {
                    println!("replay: no violation (property holds on this plan with the current tree)");
                    0
                }
            }
        }
    }
}

/// determinism self-test: the same seeds in two different process arrangements must give
/// identical per-run event-log hashes
pub fn selftest_determinism(def: &'static CheckDef, base_seed: u64, scale_den: u64) -> i32 {
    let a = BatchOpts { tier: Tier::Quick, base_seed, workers: 16, scale_num: 1, scale_den, want_hashes: true, block_override: None, reverse: false, only_part: None, write_evidence: false };
    let b = BatchOpts { tier: Tier::Quick, base_seed, workers: 5, scale_num: 1, scale_den, want_hashes: true, block_override: Some(1), reverse: true, only_part: None, write_evidence: false };
    let ra = run_batch(def, &a);
    let rb = run_batch(def, &b);
    let mut diffs = 0;
    for (k, h) in &ra.hashes {
        if rb.hashes.get(k) != Some(h) {
            diffs += 1;
            if diffs <= 5 {
                println!("HARNESS-ERROR: nondeterminism part={} idx={} {:x} vs {:x?}", k.0, k.1, h, rb.hashes.get(k));
            }
        }
    }
    println!("determinism {}: {} runs compared across two process arrangements, {} differences", def.id, ra.hashes.len(), diffs);
    if diffs > 0 || ra.exit_code == 2 || rb.exit_code == 2 || ra.hashes.len() != rb.hashes.len() {
        2
    } else {
        0
    }
}
