//! Single-threaded deterministic executor with a discrete-event clock.
//!
//! All state lives in a thread-local so that hickory's static `Time` functions, socket types that
//! must be `Send + Sync`, and spawned `Send` futures can reach it without carrying a handle.

use std::any::{Any, TypeId};
use std::cell::RefCell;
use std::cmp::Reverse;
use std::collections::{BTreeMap, BinaryHeap};
use std::future::Future;
use std::pin::Pin;
use std::sync::{Arc, Mutex};
use std::task::{Context, Poll, Wake, Waker};
use std::time::Duration;

use serde::{Deserialize, Serialize};

use crate::interpose;
use crate::rng::{hash_bytes, mix, Rng};

#[derive(Clone, Copy, Debug, Serialize, Deserialize, PartialEq, Eq)]
pub enum SchedPolicy {
    Random,
    Fifo,
    Lifo,
    /// PCT-style: random task priorities, `d` priority change points.
    Pct(u8),
}

#[derive(Clone, Debug, Serialize, Deserialize)]
pub struct SimConfig {
    pub sched_seed: u64,
    pub policy: SchedPolicy,
    pub latency_seed: u64,
    pub entropy_seed: u64,
    /// 0 = full entropy, n = bytes reduced mod n
    pub entropy_mode: u8,
    pub epoch_s: u64,
    pub step_budget: u64,
    pub max_sim_ns: u64,
    #[serde(default)]
    pub trace: bool,
}

impl SimConfig {
    pub fn from_seed(seed: u64) -> Self {
        let mut r = Rng::new(Rng::derive(seed, "simconfig"));
        let policy = match r.below(10) {
            0..=4 => SchedPolicy::Random,
            5 => SchedPolicy::Fifo,
            6 => SchedPolicy::Lifo,
            _ => SchedPolicy::Pct(1 + r.below(3) as u8),
        };
        Self {
            sched_seed: Rng::derive(seed, "sched"),
            policy,
            latency_seed: Rng::derive(seed, "latency"),
            entropy_seed: Rng::derive(seed, "entropy"),
            entropy_mode: 0,
            epoch_s: interpose::DEFAULT_EPOCH_S,
            step_budget: 50_000,
            max_sim_ns: 300 * 1_000_000_000,
            trace: false,
        }
    }
}

#[derive(Clone, Debug, Serialize, Deserialize, PartialEq, Eq)]
pub struct Violation {
    /// stable invariant id, e.g. "C17.merged"
    pub invariant: String,
    /// the specific failing shape (used to match known findings); may be empty
    pub shape: String,
    pub detail: String,
}

#[derive(Clone, Copy, Debug, PartialEq, Eq, Serialize, Deserialize)]
pub enum End {
    Completed,
    /// nothing runnable, no pending event, main future not finished
    Stalled,
    StepBudget,
    TimeBudget,
    Violation,
}

pub struct RunOut<T> {
    pub end: End,
    pub value: Option<T>,
    pub violation: Option<Violation>,
    pub counters: BTreeMap<String, u64>,
    pub log_hash: u64,
    pub ilog_hash: u64,
    pub steps: u64,
    pub sim_ns: u64,
    pub max_runnable: usize,
    pub trace: Vec<String>,
}

type BoxFut = Pin<Box<dyn Future<Output = ()>>>;

struct TaskSlot {
    fut: Option<BoxFut>,
    name: String,
    prio: u64,
    queued: bool,
    done: bool,
}

enum Action {
    Wake(Waker),
    Call(Box<dyn FnOnce()>),
}

struct TaskWaker {
    id: usize,
    q: Arc<Mutex<Vec<usize>>>,
}

impl Wake for TaskWaker {
    fn wake(self: Arc<Self>) {
        self.q.lock().unwrap().push(self.id);
    }
    fn wake_by_ref(self: &Arc<Self>) {
        self.q.lock().unwrap().push(self.id);
    }
}

pub struct State {
    tasks: Vec<TaskSlot>,
    runnable: Vec<usize>,
    wakeq: Arc<Mutex<Vec<usize>>>,
    events: BinaryHeap<Reverse<(u64, u64)>>,
    actions: BTreeMap<u64, Action>,
    seq: u64,
    now: u64,
    steps: u64,
    policy: SchedPolicy,
    rng: Rng,
    pub lat_rng: Rng,
    pct_points: Vec<u64>,
    log_hash: u64,
    ilog_hash: u64,
    trace_on: bool,
    trace: Vec<String>,
    counters: BTreeMap<String, u64>,
    violation: Option<Violation>,
    ext: BTreeMap<TypeId, Box<dyn Any>>,
    max_runnable: usize,
    current: Option<usize>,
}

thread_local! {
    static STATE: RefCell<Option<State>> = const { RefCell::new(None) };
}

pub fn with<R>(f: impl FnOnce(&mut State) -> R) -> R {
    STATE.with(|s| {
        let mut b = s.borrow_mut();
        f(b.as_mut().expect("no simulation active on this thread"))
    })
}

pub fn try_with<R>(f: impl FnOnce(&mut State) -> R) -> Option<R> {
    STATE.with(|s| match s.try_borrow_mut() {
        Ok(mut b) => b.as_mut().map(f),
        Err(_) => None,
    })
}

/// drop the state of a run that ended by unwinding (bench mode only)
pub fn abandon() {
    STATE.with(|s| {
        if let Ok(mut b) = s.try_borrow_mut() {
            if let Some(st) = b.take() {
                std::mem::forget(st);
            }
        }
    });
}

pub fn active() -> bool {
    STATE.with(|s| s.try_borrow().map(|b| b.is_some()).unwrap_or(true))
}

impl State {
    pub fn now(&self) -> u64 {
        self.now
    }
    pub fn next_seq(&mut self) -> u64 {
        self.seq += 1;
        self.seq
    }
    pub fn schedule(&mut self, at: u64, a: impl FnOnce() + 'static) -> u64 {
        let seq = self.next_seq();
        let at = at.max(self.now);
        self.events.push(Reverse((at, seq)));
        self.actions.insert(seq, Action::Call(Box::new(a)));
        seq
    }
    fn schedule_wake(&mut self, at: u64, w: Waker) -> u64 {
        let seq = self.next_seq();
        let at = at.max(self.now);
        self.events.push(Reverse((at, seq)));
        self.actions.insert(seq, Action::Wake(w));
        seq
    }
    pub fn cancel(&mut self, seq: u64) {
        self.actions.remove(&seq);
    }
    pub fn log(&mut self, s: &str) {
        self.log_hash = hash_bytes(mix(self.log_hash ^ self.now), s.as_bytes());
        if self.trace_on {
            let line = format!("[{:>12.6}s #{:<6}] {}", self.now as f64 / 1e9, self.steps, s);
            self.trace.push(line);
        }
    }
    /// externally visible event, with run-specific identifiers already abstracted by the caller
    pub fn ilog(&mut self, s: &str) {
        self.ilog_hash = hash_bytes(mix(self.ilog_hash), s.as_bytes());
    }
    pub fn count(&mut self, k: &str, n: u64) {
        *self.counters.entry(k.to_string()).or_insert(0) += n;
    }
    /// records a violation; returns true when it ends the run, false when it matches a listed
    /// known finding (then it is only counted and the run goes on)
    pub fn violate(&mut self, invariant: &str, shape: &str, detail: String) -> bool {
        let v = Violation { invariant: invariant.to_string(), shape: shape.to_string(), detail };
        if crate::supervisor::is_known(&v) {
            let key = crate::supervisor::violation_key(&v);
            self.log(&format!("KNOWN {key} {}", v.detail));
            self.count(&format!("known.{key}"), 1);
            return false;
        }
        if self.violation.is_none() {
            self.log(&format!("VIOLATION {invariant} [{shape}] {}", v.detail));
            self.violation = Some(v);
        }
        true
    }
    pub fn ext<T: Any + Default>(&mut self) -> &mut T {
        self.ext
            .entry(TypeId::of::<T>())
            .or_insert_with(|| Box::new(T::default()))
            .downcast_mut::<T>()
            .unwrap()
    }
    fn add_task(&mut self, name: &str, fut: BoxFut) -> usize {
        let id = self.tasks.len();
        let prio = self.rng.next_u64() | (1 << 63);
        self.tasks.push(TaskSlot { fut: Some(fut), name: name.to_string(), prio, queued: true, done: false });
        self.runnable.push(id);
        id
    }
    fn drain_wakes(&mut self) {
        let woken: Vec<usize> = std::mem::take(&mut *self.wakeq.lock().unwrap());
        for id in woken {
            if let Some(t) = self.tasks.get_mut(id) {
                if !t.done && !t.queued {
                    t.queued = true;
                    self.runnable.push(id);
                }
            }
        }
    }
    /// index into `runnable` chosen by the policy
    fn choose(&mut self, n_choices: usize) -> usize {
        if n_choices == 1 {
            return 0;
        }
        match self.policy {
            SchedPolicy::Random => self.rng.usize_below(n_choices),
            SchedPolicy::Fifo => 0,
            SchedPolicy::Lifo => n_choices - 1,
            SchedPolicy::Pct(_) => {
                // due-event pseudo choice (index == runnable.len()) has fixed middle priority
                let mut best = 0usize;
                let mut best_p = 0u64;
                for i in 0..n_choices {
                    let p = if i < self.runnable.len() { self.tasks[self.runnable[i]].prio } else { 1 << 62 };
                    if i == 0 || p > best_p {
                        best = i;
                        best_p = p;
                    }
                }
                best
            }
        }
    }
}

// ------------------------------------------------------------------------------------------
// free functions usable from inside a run

pub fn now_ns() -> u64 {
    with(|s| s.now)
}
pub fn log(s: &str) {
    with(|st| st.log(s))
}
pub fn ilog(s: &str) {
    with(|st| st.ilog(s))
}
pub fn count(k: &str) {
    with(|st| st.count(k, 1))
}
pub fn count_n(k: &str, n: u64) {
    with(|st| st.count(k, n))
}
pub fn violate(invariant: &str, shape: &str, detail: String) -> bool {
    with(|st| st.violate(invariant, shape, detail))
}
pub fn violated() -> bool {
    with(|st| st.violation.is_some())
}
pub fn tracing() -> bool {
    with(|st| st.trace_on)
}
/// schedule a callback `delay_ns` from now; callbacks run on the executor thread between polls
pub fn call_after(delay_ns: u64, f: impl FnOnce() + 'static) -> u64 {
    with(|st| {
        let at = st.now + delay_ns;
        st.schedule(at, f)
    })
}
/// draw from the latency stream
pub fn lat_below(n: u64) -> u64 {
    with(|st| st.lat_rng.below(n.max(1)))
}
pub fn jump_wall_clock(delta_ns: i64) {
    interpose::set_wall_offset_ns(interpose::wall_offset_ns() + delta_ns);
    log(&format!("wall clock jump {delta_ns}ns"));
}

pub struct JoinHandle<T> {
    slot: Arc<Mutex<(Option<T>, Option<Waker>)>>,
}

impl<T> Future for JoinHandle<T> {
    type Output = T;
    fn poll(self: Pin<&mut Self>, cx: &mut Context<'_>) -> Poll<T> {
        let mut g = self.slot.lock().unwrap();
        if let Some(v) = g.0.take() {
            Poll::Ready(v)
        } else {
            g.1 = Some(cx.waker().clone());
            Poll::Pending
        }
    }
}

impl<T> JoinHandle<T> {
    pub fn try_take(&self) -> Option<T> {
        self.slot.lock().unwrap().0.take()
    }
    pub fn is_finished(&self) -> bool {
        self.slot.lock().unwrap().0.is_some()
    }
}

pub fn spawn<T: 'static>(name: &str, fut: impl Future<Output = T> + 'static) -> JoinHandle<T> {
    let slot = Arc::new(Mutex::new((None, None::<Waker>)));
    let s2 = slot.clone();
    let wrapped = async move {
        let v = fut.await;
        let w = {
            let mut g = s2.lock().unwrap();
            g.0 = Some(v);
            g.1.take()
        };
        if let Some(w) = w {
            w.wake();
        }
    };
    with(|st| {
        st.add_task(name, Box::pin(wrapped));
        st.log(&format!("spawn {name}"));
    });
    JoinHandle { slot }
}

pub struct Sleep {
    deadline: Option<u64>,
    dur: u64,
    ev: Option<u64>,
}

impl Future for Sleep {
    type Output = ();
    fn poll(mut self: Pin<&mut Self>, cx: &mut Context<'_>) -> Poll<()> {
        let now = now_ns();
        let dl = match self.deadline {
            Some(d) => d,
            None => {
                let d = now.saturating_add(self.dur);
                self.deadline = Some(d);
                d
            }
        };
        if now >= dl && self.ev.is_some() {
            return Poll::Ready(());
        }
        if let Some(old) = self.ev.take() {
            with(|st| st.cancel(old));
        }
        let w = cx.waker().clone();
        let ev = with(|st| st.schedule_wake(dl, w));
        self.ev = Some(ev);
        // note: even a zero sleep yields once (the event is fired through the scheduler)
        Poll::Pending
    }
}

impl Drop for Sleep {
    fn drop(&mut self) {
        if let Some(ev) = self.ev.take() {
            let _ = try_with(|st| st.cancel(ev));
        }
    }
}

pub fn sleep(d: Duration) -> Sleep {
    Sleep { deadline: None, dur: d.as_nanos().min(u64::MAX as u128 / 4) as u64, ev: None }
}

pub fn sleep_ns(ns: u64) -> Sleep {
    Sleep { deadline: None, dur: ns, ev: None }
}

/// yields to the scheduler once
pub struct YieldNow(bool);
impl Future for YieldNow {
    type Output = ();
    fn poll(mut self: Pin<&mut Self>, cx: &mut Context<'_>) -> Poll<()> {
        if self.0 {
            Poll::Ready(())
        } else {
            self.0 = true;
            cx.waker().wake_by_ref();
            Poll::Pending
        }
    }
}
pub fn yield_now() -> YieldNow {
    YieldNow(false)
}

pub struct Timeout<F: Future> {
    fut: Pin<Box<F>>,
    sleep: Sleep,
}

impl<F: Future> Future for Timeout<F> {
    type Output = Result<F::Output, ()>;
    fn poll(self: Pin<&mut Self>, cx: &mut Context<'_>) -> Poll<Self::Output> {
        let this = unsafe { self.get_unchecked_mut() };
        if let Poll::Ready(v) = this.fut.as_mut().poll(cx) {
            return Poll::Ready(Ok(v));
        }
        match Pin::new(&mut this.sleep).poll(cx) {
            Poll::Ready(()) => Poll::Ready(Err(())),
            Poll::Pending => Poll::Pending,
        }
    }
}

pub fn timeout<F: Future>(d: Duration, fut: F) -> Timeout<F> {
    Timeout { fut: Box::pin(fut), sleep: sleep(d) }
}

// ------------------------------------------------------------------------------------------

/// Run `main` to completion under the simulator on the current thread.
pub fn run<T: 'static>(cfg: &SimConfig, main: impl Future<Output = T> + 'static) -> RunOut<T> {
    assert!(!active(), "nested simulation");
    let mut rng = Rng::new(cfg.sched_seed);
    let mut pct_points = Vec::new();
    if let SchedPolicy::Pct(d) = cfg.policy {
        for _ in 0..d {
            pct_points.push(1 + rng.below(400));
        }
    }
    let st = State {
        tasks: Vec::new(),
        runnable: Vec::new(),
        wakeq: Arc::new(Mutex::new(Vec::new())),
        events: BinaryHeap::new(),
        actions: BTreeMap::new(),
        seq: 0,
        now: 0,
        steps: 0,
        policy: cfg.policy,
        rng,
        lat_rng: Rng::new(cfg.latency_seed),
        pct_points,
        log_hash: 0,
        ilog_hash: 0,
        trace_on: cfg.trace,
        trace: Vec::new(),
        counters: BTreeMap::new(),
        violation: None,
        ext: BTreeMap::new(),
        max_runnable: 0,
        current: None,
    };
    STATE.with(|s| *s.borrow_mut() = Some(st));
    interpose::activate(cfg.entropy_seed, cfg.entropy_mode, cfg.epoch_s);
    // a panic that unwinds out of the run (reported by the supervisor as `<ID>.panic`) must not
    // leave the thread "inside a simulation" for the next run of the block
    struct Unwind;
    impl Drop for Unwind {
        fn drop(&mut self) {
            if std::thread::panicking() {
                interpose::deactivate();
                if let Ok(st) = STATE.try_with(|s| s.try_borrow_mut().ok().and_then(|mut b| b.take())) {
                    // the tasks may hold objects whose destructors call back into the state
                    std::mem::forget(st);
                }
            }
        }
    }
    let _unwind = Unwind;

    let result: Arc<Mutex<Option<T>>> = Arc::new(Mutex::new(None));
    let r2 = result.clone();
    with(|st| {
        st.add_task(
            "main",
            Box::pin(async move {
                let v = main.await;
                *r2.lock().unwrap() = Some(v);
            }),
        )
    });

    let end;
    loop {
        // one scheduling decision
        enum Step {
            Poll(usize, BoxFut, Waker),
            Fire(Action),
            Advance,
            End(End),
        }
        let step = with(|st| {
            st.drain_wakes();
            if st.violation.is_some() {
                return Step::End(End::Violation);
            }
            if st.tasks[0].done {
                return Step::End(End::Completed);
            }
            if st.steps >= cfg.step_budget {
                return Step::End(End::StepBudget);
            }
            // drop cancelled events from the head
            while let Some(Reverse((_, seq))) = st.events.peek().copied() {
                if st.actions.contains_key(&seq) {
                    break;
                }
                st.events.pop();
            }
            let due = matches!(st.events.peek(), Some(Reverse((t, _))) if *t <= st.now);
            let n = st.runnable.len() + usize::from(due);
            if n == 0 {
                return match st.events.peek().copied() {
                    None => Step::End(End::Stalled),
                    Some(Reverse((t, _))) => {
                        if t > cfg.max_sim_ns {
                            Step::End(End::TimeBudget)
                        } else {
                            st.now = t;
                            interpose::set_now_ns(t);
                            Step::Advance
                        }
                    }
                };
            }
            if st.runnable.len() > st.max_runnable {
                st.max_runnable = st.runnable.len();
            }
            st.steps += 1;
            if let SchedPolicy::Pct(_) = st.policy {
                if st.pct_points.contains(&st.steps) {
                    if let Some(cur) = st.current {
                        st.tasks[cur].prio = st.steps; // drop below every initial priority
                    }
                }
            }
            let c = st.choose(n);
            if c >= st.runnable.len() {
                let Reverse((_, seq)) = st.events.pop().unwrap();
                let a = st.actions.remove(&seq).unwrap();
                return Step::Fire(a);
            }
            let id = st.runnable.remove(c);
            st.tasks[id].queued = false;
            st.current = Some(id);
            let fut = st.tasks[id].fut.take().expect("task polled re-entrantly");
            let waker = Waker::from(Arc::new(TaskWaker { id, q: st.wakeq.clone() }));
            Step::Poll(id, fut, waker)
        });
        match step {
            Step::End(e) => {
                end = e;
                break;
            }
            Step::Advance => {}
            Step::Fire(Action::Wake(w)) => w.wake(),
            Step::Fire(Action::Call(f)) => f(),
            Step::Poll(id, mut fut, waker) => {
                let mut cx = Context::from_waker(&waker);
                let r = fut.as_mut().poll(&mut cx);
                match r {
                    Poll::Ready(()) => {
                        drop(fut);
                        with(|st| {
                            st.tasks[id].done = true;
                            let name = st.tasks[id].name.clone();
                            st.log(&format!("task done {name}"));
                        });
                    }
                    Poll::Pending => with(|st| st.tasks[id].fut = Some(fut)),
                }
            }
        }
    }

    // tear down: drop tasks and pending callbacks while the state is still reachable (socket
    // destructors call back into it), then remove the state.
    let (tasks, actions) = with(|st| (std::mem::take(&mut st.tasks), std::mem::take(&mut st.actions)));
    drop(tasks);
    drop(actions);
    let ext = with(|st| std::mem::take(&mut st.ext));
    drop(ext);
    interpose::deactivate();
    let st = STATE.with(|s| s.borrow_mut().take()).unwrap();
    let value = result.lock().unwrap().take();
    RunOut {
        end,
        value,
        violation: st.violation,
        counters: st.counters,
        log_hash: st.log_hash,
        ilog_hash: st.ilog_hash,
        steps: st.steps,
        sim_ns: st.now,
        max_runnable: st.max_runnable,
        trace: st.trace,
    }
}
