//! The only source of randomness in the framework: SplitMix64 streams derived from one seed.

#[derive(Clone, Debug)]
pub struct Rng {
    s: u64,
}

pub fn mix(mut z: u64) -> u64 {
    z = z.wrapping_add(0x9E37_79B9_7F4A_7C15);
    z = (z ^ (z >> 30)).wrapping_mul(0xBF58_476D_1CE4_E5B9);
    z = (z ^ (z >> 27)).wrapping_mul(0x94D0_49BB_1331_11EB);
    z ^ (z >> 31)
}

/// FNV-1a over a string, used to derive named sub-streams.
pub fn hash_str(s: &str) -> u64 {
    let mut h: u64 = 0xcbf2_9ce4_8422_2325;
    for b in s.as_bytes() {
        h ^= *b as u64;
        h = h.wrapping_mul(0x0000_0100_0000_01B3);
    }
    h
}

pub fn hash_bytes(h0: u64, s: &[u8]) -> u64 {
    let mut h = h0 ^ 0xcbf2_9ce4_8422_2325;
    for b in s {
        h ^= *b as u64;
        h = h.wrapping_mul(0x0000_0100_0000_01B3);
    }
    h
}

impl Rng {
    pub fn new(seed: u64) -> Self {
        Self { s: mix(seed ^ 0x5851_F42D_4C95_7F2D) }
    }

    /// Independent named sub-stream.
    pub fn fork(&self, label: &str) -> Self {
        Self { s: mix(self.s ^ hash_str(label)) }
    }

    pub fn derive(seed: u64, label: &str) -> u64 {
        mix(mix(seed) ^ hash_str(label))
    }

    pub fn next_u64(&mut self) -> u64 {
        self.s = self.s.wrapping_add(0x9E37_79B9_7F4A_7C15);
        let mut z = self.s;
        z = (z ^ (z >> 30)).wrapping_mul(0xBF58_476D_1CE4_E5B9);
        z = (z ^ (z >> 27)).wrapping_mul(0x94D0_49BB_1331_11EB);
        z ^ (z >> 31)
    }

    /// Uniform in 0..n (n > 0).
    pub fn below(&mut self, n: u64) -> u64 {
        debug_assert!(n > 0);
        // multiply-shift; bias is irrelevant here
        ((self.next_u64() as u128 * n as u128) >> 64) as u64
    }

    pub fn usize_below(&mut self, n: usize) -> usize {
        self.below(n as u64) as usize
    }

    /// Uniform in lo..=hi.
    pub fn range(&mut self, lo: u64, hi: u64) -> u64 {
        debug_assert!(hi >= lo);
        lo + self.below(hi - lo + 1)
    }

    pub fn chance(&mut self, num: u64, den: u64) -> bool {
        self.below(den) < num
    }

    pub fn bool(&mut self) -> bool {
        self.next_u64() & 1 == 1
    }

    pub fn pick<'a, T>(&mut self, xs: &'a [T]) -> &'a T {
        &xs[self.usize_below(xs.len())]
    }

    pub fn shuffle<T>(&mut self, xs: &mut [T]) {
        for i in (1..xs.len()).rev() {
            let j = self.usize_below(i + 1);
            xs.swap(i, j);
        }
    }

    pub fn fill(&mut self, buf: &mut [u8]) {
        for chunk in buf.chunks_mut(8) {
            let v = self.next_u64().to_le_bytes();
            chunk.copy_from_slice(&v[..chunk.len()]);
        }
    }

    pub fn bytes(&mut self, n: usize) -> Vec<u8> {
        let mut v = vec![0u8; n];
        self.fill(&mut v);
        v
    }
}
