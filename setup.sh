#!/bin/bash
# Build the framework (and thereby hickory-dns from /repo's working tree) offline.
cd "$(dirname "$0")" || exit 1
export CARGO_NET_OFFLINE=true
mkdir -p target evidence replays
cargo build --release --offline -p hv 2>&1 | tail -n 5
test -x target/release/hv
